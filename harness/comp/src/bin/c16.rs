//! C16 — no wake-up is ever lost.
//!
//! Every hand-written waiter/notifier protocol reachable from the component crates is wrapped
//! as a small step machine whose steps are the real lock-protected public operations. A case is
//! a schedule (sequence of step ids); the harness is single-threaded and polls by hand with
//! counting wakers. At quiescence (all steps consumed, half-done notifiers completed, every
//! woken waiter re-polled to a fixpoint) no waiter may still be asleep while a fresh poll /
//! condition check would let it proceed.
//!
//! Granularity: for the lock-protected `poll_*` protocols check+register is ONE step (that is
//! the real atomicity); for the `SendWaker` burst loop, the `CidCell` borrow and the
//! `Wakers::combine_with` fan-out the condition check and the registration are separate steps,
//! so a notifier can be scheduled between them.

use std::{
    cell::Cell,
    future::Future,
    mem::ManuallyDrop,
    panic::{AssertUnwindSafe, catch_unwind, resume_unwind},
    pin::Pin,
    sync::{
        Arc, OnceLock,
        atomic::{AtomicUsize, Ordering},
    },
    task::{Context, Poll, Wake, Waker},
};

use bytes::{BufMut, Bytes, buf::UninitSlice};
use proptest::prelude::*;
use qbase::{
    ArcReceiving,
    cid::{ArcCidCell, ArcRemoteCids, ConnectionId},
    error::{Error as QError, ErrorKind, QuicError},
    flow::ArcSendControler,
    frame::{
        CryptoFrame, DatagramFrame, Frame, MaxStreamDataFrame, MaxStreamsFrame,
        NewConnectionIdFrame, ResetStreamFrame, StopSendingFrame, StreamCtlFrame, StreamFrame,
        io::{ReceiveFrame, SendFrame},
    },
    net::{
        addr::EndpointAddr,
        route::Pathway,
        tx::{ArcSendWaker, ArcSendWakers, Signals},
    },
    packet::{
        io::RecordFrame,
        keys::{ArcKeys, ArcOneRttKeys, ArcZeroRttKeys, DirectionalKeys, Keys as QKeys},
    },
    param::{ArcParameters, ClientParameters, ParameterId, Parameters, ServerParameters},
    role::Role,
    sid::{ArcLocalStreamIds, Dir, StreamId, handy::ConsistentConcurrency},
    util::{ArcAsyncDeque, Wakers},
    varint::VarInt,
};
use qdatagram::{DatagramIncoming, DatagramReader};
use qrecovery::{
    crypto::{CryptoStream, CryptoStreamIncoming, CryptoStreamOutgoing, CryptoStreamReader, CryptoStreamWriter},
    recv::Reader,
    send::Writer,
    streams::{DataStreams, Ext},
};
use serde::{Deserialize, Serialize};
use tokio::io::{AsyncRead, AsyncWrite, ReadBuf};
use vcore::{CaseCtx, Check, Fail, Outcome, ensure, gens};

// ---------------------------------------------------------------------------
// counting wakers and sleepers
// ---------------------------------------------------------------------------

struct Count(AtomicUsize);

impl Wake for Count {
    fn wake(self: Arc<Self>) {
        self.0.fetch_add(1, Ordering::SeqCst);
    }
    fn wake_by_ref(self: &Arc<Self>) {
        self.0.fetch_add(1, Ordering::SeqCst);
    }
}

/// One task as the executor sees it: a waker that counts, and whether its last poll was Pending.
struct Sleeper {
    count: Arc<Count>,
    waker: Waker,
    /// `Some(n)`: the last poll returned Pending; `n` = wake count when that poll (or, for split
    /// waiters, its registration) began
    pending: Option<usize>,
    polls: u32,
}

impl Sleeper {
    fn new() -> Self {
        let count = Arc::new(Count(AtomicUsize::new(0)));
        let waker = Waker::from(count.clone());
        Self { count, waker, pending: None, polls: 0 }
    }
    fn wakes(&self) -> usize {
        self.count.0.load(Ordering::SeqCst)
    }
    fn woken(&self) -> bool {
        matches!(self.pending, Some(n) if self.wakes() > n)
    }
    /// Pending and not woken since
    fn asleep(&self) -> bool {
        matches!(self.pending, Some(n) if self.wakes() == n)
    }
    fn mark(&mut self, before: usize, is_pending: bool) {
        self.polls += 1;
        self.pending = if is_pending { Some(before) } else { None };
    }
    fn poll<T>(&mut self, f: impl FnOnce(&mut Context<'_>) -> Poll<T>) -> Poll<T> {
        let before = self.wakes();
        let waker = self.waker.clone();
        let mut cx = Context::from_waker(&waker);
        let r = f(&mut cx);
        self.mark(before, r.is_pending());
        r
    }
    /// the task gave up / finished
    fn idle(&mut self) {
        self.pending = None;
    }
}

fn sleepers<const N: usize>() -> [Sleeper; N] {
    std::array::from_fn(|_| Sleeper::new())
}

// ---------------------------------------------------------------------------
// protocol interface
// ---------------------------------------------------------------------------

#[derive(Clone, Copy, PartialEq, Eq, Debug)]
enum Who {
    /// waiter task
    W(u8),
    /// notifier
    N(u8),
}

struct OpInfo {
    name: &'static str,
    who: Who,
    /// how often the step may occur in one exhaustively enumerated schedule
    cap: u8,
}

const fn op(name: &'static str, who: Who, cap: u8) -> OpInfo {
    OpInfo { name, who, cap }
}

trait Proto: Sized {
    const NAME: &'static str;
    /// a waiter's condition check and its waker registration are separate schedule steps
    const SPLIT: bool = false;
    const OPS: &'static [OpInfo];
    const CFGS: u8 = 1;
    fn new(cfg: u8) -> Result<Self, Fail>;
    /// can the real callers issue this step in the current state?
    fn enabled(&self, _op: usize) -> bool {
        true
    }
    fn step(&mut self, op: usize) -> Outcome;
    fn sleepers(&self) -> &[Sleeper];
    /// poll waiter `w`'s current operation again with its own waker (split waiters: drive it to
    /// its next blocking point)
    fn repoll(&mut self, w: usize) -> Outcome;
    /// complete half-done notifiers / failure handling and drive running split waiters to a
    /// blocking point, before quiescence is judged
    fn settle(&mut self) -> Outcome {
        Ok(())
    }
    /// waiter `w` is asleep: would a fresh look at its condition let it proceed?
    fn would_proceed(&mut self, w: usize) -> Result<bool, Fail> {
        self.repoll(w)?;
        Ok(self.sleepers()[w].pending.is_none())
    }
    /// some waiter has evaluated its condition but not yet registered (SPLIT protocols)
    fn mid_check(&self) -> bool {
        false
    }
    fn closed(&self) -> bool {
        false
    }
    fn lost_signature(&self, _w: usize) -> String {
        if self.closed() {
            format!("{}:sleeps-after-close", Self::NAME)
        } else {
            format!("{}:lost-wakeup", Self::NAME)
        }
    }
    fn describe(&self) -> String {
        String::new()
    }
}

#[derive(Debug, Clone, Serialize, Deserialize)]
struct Case {
    cfg: u8,
    ops: Vec<u8>,
}

fn harness(msg: impl Into<String>) -> Fail {
    Fail::new("harness", msg)
}

fn run_case<P: Proto>(case: &Case, ctx: &mut CaseCtx, pruned: Option<&Cell<bool>>) -> Outcome {
    // A panic inside the stack poisons its mutexes and several Drop impls lock them: dropping the
    // rig while unwinding would abort the process, so it is leaked in that case.
    let mut p = ManuallyDrop::new(P::new(case.cfg)?);
    let r = catch_unwind(AssertUnwindSafe(|| run_inner::<P>(&mut p, case, ctx, pruned)));
    match r {
        Ok(out) => {
            unsafe { ManuallyDrop::drop(&mut p) };
            out
        }
        Err(payload) => resume_unwind(payload),
    }
}

fn schedule_text<P: Proto>(executed: &[u8]) -> String {
    executed.iter().map(|o| P::OPS[*o as usize].name).collect::<Vec<_>>().join(" ; ")
}

fn run_inner<P: Proto>(p: &mut P, case: &Case, ctx: &mut CaseCtx, pruned: Option<&Cell<bool>>) -> Outcome {
    ensure!(case.cfg < P::CFGS, "harness", "cfg out of range");
    let mut executed: Vec<u8> = Vec::with_capacity(case.ops.len());
    let mut between = false;
    for &o in &case.ops {
        let oi = o as usize;
        ensure!(oi < P::OPS.len(), "harness", "op out of range");
        if !p.enabled(oi) {
            if let Some(flag) = pruned {
                // the executed prefix is enumerated as its own (shorter) case
                flag.set(true);
                ctx.class("pruned-disabled-step");
                return Ok(());
            }
            continue;
        }
        if P::SPLIT && matches!(P::OPS[oi].who, Who::N(_)) && p.mid_check() {
            between = true;
        }
        p.step(oi)?;
        executed.push(o);
    }
    p.settle()?;
    let n = p.sleepers().len();
    // every woken waiter is polled again, to a fixpoint
    let mut repolled_ready = false;
    let mut rounds = 0;
    loop {
        let mut any = false;
        for w in 0..n {
            if p.sleepers()[w].woken() {
                p.repoll(w)?;
                if p.sleepers()[w].pending.is_none() {
                    repolled_ready = true;
                }
                any = true;
            }
        }
        if !any {
            break;
        }
        rounds += 1;
        ensure!(rounds < 64, "harness", "{}: no fixpoint after 64 rounds of re-polling; schedule: {}", P::NAME, schedule_text::<P>(&executed));
    }
    // the oracle: nobody sleeps on a satisfied condition
    let mut legit_sleep = false;
    for w in 0..n {
        if p.sleepers()[w].asleep() {
            let sig = p.lost_signature(w);
            let state = p.describe();
            if p.would_proceed(w)? {
                // recorded through ctx.known so that every waiter is still examined; vcore fails
                // the case on the first signature that is not a listed known finding
                ctx.known.push(Fail::new(
                    sig,
                    format!(
                        "{} cfg {}: waiter {w} is asleep (last poll Pending, its waker never woken since) although its condition is satisfied{}; schedule: {} [{}]",
                        P::NAME,
                        case.cfg,
                        if p.closed() { " (object closed/failed)" } else { "" },
                        schedule_text::<P>(&executed),
                        state
                    ),
                ));
            } else {
                legit_sleep = true;
            }
        }
    }
    // classification
    let mut alt = 0;
    for i in 1..executed.len() {
        let a = matches!(P::OPS[executed[i - 1] as usize].who, Who::W(_));
        let b = matches!(P::OPS[executed[i] as usize].who, Who::W(_));
        if a != b {
            alt += 1;
        }
    }
    if alt >= 3 {
        ctx.class("alternations>=3");
    }
    if between {
        ctx.class("notifier-between-check-and-register");
    }
    if p.closed() {
        ctx.class("closed");
    }
    if legit_sleep {
        ctx.class("asleep-on-false-condition-at-end");
    }
    if repolled_ready {
        ctx.class("woken-then-ready-at-quiescence");
    }
    if !ctx.known.is_empty() {
        ctx.class("lost-wakeup-seen");
    }
    if between || alt >= 3 {
        ctx.nontrivial();
    }
    Ok(())
}

/// Depth-limited walk; only schedules of exactly `level` steps are evaluated (shorter ones were
/// evaluated at earlier levels, so the first failure per signature is a shortest one).
fn dfs<P: Proto>(
    e: &mut vcore::Enumerator<Case>,
    cfg: u8,
    seq: &mut Vec<u8>,
    counts: &mut [u8],
    level: usize,
    dead: &mut std::collections::HashSet<Vec<u8>>,
) {
    for o in 0..P::OPS.len() {
        if e.stopped() {
            return;
        }
        if counts[o] >= P::OPS[o].cap {
            continue;
        }
        seq.push(o as u8);
        counts[o] += 1;
        if seq.len() == level {
            let pruned = Cell::new(false);
            e.case(&Case { cfg, ops: seq.clone() }, |c, ctx| run_case::<P>(c, ctx, Some(&pruned)));
            if pruned.get() {
                dead.insert(seq.clone());
            }
        } else if !dead.contains(seq.as_slice()) {
            dfs::<P>(e, cfg, seq, counts, level, dead);
        }
        counts[o] -= 1;
        seq.pop();
    }
}

fn stages<P: Proto>(check: &mut Check, depth_q: usize, depth_t: usize, rand_q: u64, rand_t: u64) {
    let depth = if check.quick() { depth_q } else { depth_t };
    check.exhaustive::<Case, _>(&format!("{}-exhaustive", P::NAME), true, |e| {
        for cfg in 0..P::CFGS {
            let mut dead = std::collections::HashSet::new();
            for level in 1..=depth {
                let mut seq = vec![];
                let mut counts = vec![0u8; P::OPS.len()];
                dfs::<P>(e, cfg, &mut seq, &mut counts, level, &mut dead);
            }
        }
    });
    let n = check.pick(rand_q, rand_t);
    let max_len = if check.quick() { 40usize } else { 80 };
    let n_ops = P::OPS.len();
    check.stage(
        &format!("{}-random", P::NAME),
        n,
        16,
        move || {
            (0..P::CFGS, proptest::collection::vec(any::<u16>(), 0..=max_len)).prop_map(move |(cfg, v)| Case {
                cfg,
                ops: v.iter().map(|i| gens::idx(*i, n_ops) as u8).collect(),
            })
        },
        |c: &Case, ctx: &mut CaseCtx| run_case::<P>(c, ctx, None),
    );
}

// ---------------------------------------------------------------------------
// shared rig pieces
// ---------------------------------------------------------------------------

/// Frame sink for every `SendFrame` bound.
#[derive(Debug, Clone, Default)]
struct Sink;

impl<T> SendFrame<T> for Sink {
    fn send_frame<I: IntoIterator<Item = T>>(&self, iter: I) {
        iter.into_iter().for_each(drop);
    }
}

fn conn_error() -> QError {
    QError::Quic(QuicError::with_default_fty(ErrorKind::Internal, "verif: connection failed"))
}

fn vi(v: u64) -> VarInt {
    VarInt::from_u64(v).unwrap()
}

/// A packet body with a hard capacity that records the STREAM / CRYPTO frames put into it.
struct Packet {
    buf: Vec<u8>,
    cap: usize,
    streams: Vec<StreamFrame>,
    cryptos: Vec<CryptoFrame>,
}

impl Packet {
    fn new(cap: usize) -> Self {
        Self { buf: Vec::with_capacity(cap), cap, streams: vec![], cryptos: vec![] }
    }
}

unsafe impl BufMut for Packet {
    fn remaining_mut(&self) -> usize {
        self.cap - self.buf.len()
    }
    unsafe fn advance_mut(&mut self, cnt: usize) {
        assert!(cnt <= self.remaining_mut(), "packet overflow");
        let n = self.buf.len() + cnt;
        unsafe { self.buf.set_len(n) };
    }
    fn chunk_mut(&mut self) -> &mut UninitSlice {
        let len = self.buf.len();
        let cap = self.cap;
        if self.buf.capacity() < cap {
            self.buf.reserve(cap - len);
        }
        let spare = &mut self.buf.spare_capacity_mut()[..cap - len];
        UninitSlice::uninit(spare)
    }
}

impl<'a> RecordFrame<Frame<&'a [Bytes]>, &'a [Bytes]> for Packet {
    fn record_frame(&mut self, frame: &Frame<&'a [Bytes]>) {
        match frame {
            Frame::Crypto(f, _) => self.cryptos.push(*f),
            Frame::Stream(f, _) => self.streams.push(*f),
            _ => {}
        }
    }
}

// ---------------------------------------------------------------------------
// P: ArcAsyncDeque  (atomic poll_pop; single consumer task by contract — a second task panics by design)
// ---------------------------------------------------------------------------

struct Deque {
    q: ArcAsyncDeque<u32>,
    s: [Sleeper; 1],
    closed: bool,
}

impl Proto for Deque {
    const NAME: &'static str = "async-deque";
    const OPS: &'static [OpInfo] = &[
        op("poll_pop", Who::W(0), 3),
        op("push_back", Who::N(0), 2),
        op("push_front", Who::N(0), 1),
        op("extend", Who::N(1), 1),
        op("close", Who::N(1), 1),
    ];
    fn new(_: u8) -> Result<Self, Fail> {
        Ok(Self { q: ArcAsyncDeque::new(), s: sleepers(), closed: false })
    }
    fn step(&mut self, o: usize) -> Outcome {
        match o {
            0 => {
                let _ = self.s[0].poll(|cx| self.q.poll_pop(cx));
            }
            1 => self.q.push_back(1),
            2 => self.q.push_front(2),
            3 => (&self.q).extend([3, 4]),
            _ => {
                self.q.close();
                self.closed = true;
            }
        }
        Ok(())
    }
    fn sleepers(&self) -> &[Sleeper] {
        &self.s
    }
    fn repoll(&mut self, _: usize) -> Outcome {
        self.step(0)
    }
    fn closed(&self) -> bool {
        self.closed
    }
}

// ---------------------------------------------------------------------------
// P: Receiving / ArcReceiving  (atomic poll)
// ---------------------------------------------------------------------------

struct Recving {
    r: ArcReceiving<u32>,
    s: [Sleeper; 1],
    reset: bool,
}

impl Proto for Recving {
    const NAME: &'static str = "receiving";
    const OPS: &'static [OpInfo] = &[
        op("poll", Who::W(0), 3),
        op("recv_frame", Who::N(0), 2),
        op("reset", Who::N(1), 1),
    ];
    fn new(_: u8) -> Result<Self, Fail> {
        Ok(Self { r: ArcReceiving::default(), s: sleepers(), reset: false })
    }
    fn step(&mut self, o: usize) -> Outcome {
        match o {
            0 => {
                let mut fut = self.r.clone();
                let _ = self.s[0].poll(|cx| Pin::new(&mut fut).poll(cx));
            }
            1 => {
                let _ = self.r.recv_frame(7);
            }
            _ => {
                self.r.reset();
                self.reset = true;
            }
        }
        Ok(())
    }
    fn sleepers(&self) -> &[Sleeper] {
        &self.s
    }
    fn repoll(&mut self, _: usize) -> Outcome {
        self.step(0)
    }
    fn closed(&self) -> bool {
        self.reset
    }
    fn lost_signature(&self, _: usize) -> String {
        // the only waker slot of this type is the one `poll` never fills
        "receiving:poll-never-stores-waker".into()
    }
}

// ---------------------------------------------------------------------------
// P: SendWaker burst loop (split: external condition check, then wait_for)
// ---------------------------------------------------------------------------

const SIG_A: u16 = Signals::TRANSPORT.bits();
const SIG_B: u16 = Signals::WRITTEN.bits();
const SIG_C: u16 = Signals::CREDIT.bits();

type WaitFut = Pin<Box<dyn Future<Output = ()>>>;

enum LoopPhase {
    /// about to evaluate the external conditions
    Run,
    /// evaluated: these signals are missing; `wait_for` not called yet
    Checked(u16),
    /// inside `wait_for(missing).await`
    Waiting(WaitFut),
    /// the task ended (path removed)
    Done,
}

/// The waiter of `Path`'s burst task: `loop { match burst() { Err(Signals(s)) => tx_waker.wait_for(s).await, Ok => send } }`.
struct BurstLoop {
    w: ArcSendWaker,
    phase: LoopPhase,
    needs: u16,
    any: bool,
    sends: u32,
}

impl BurstLoop {
    fn new(needs: u16, any: bool) -> Self {
        Self { w: ArcSendWaker::new(), phase: LoopPhase::Run, needs, any, sends: 0 }
    }
    fn satisfied(&self, conds: u16) -> bool {
        if self.any { conds & self.needs != 0 } else { self.needs & !conds == 0 }
    }
    /// one lock-protected step of the task
    fn advance(&mut self, conds: &mut u16, s: &mut Sleeper) {
        match std::mem::replace(&mut self.phase, LoopPhase::Run) {
            LoopPhase::Run => {
                if self.satisfied(*conds) {
                    // a burst is sent; it uses up what it needed
                    *conds &= !self.needs;
                    self.sends += 1;
                    s.idle();
                    self.phase = LoopPhase::Run;
                } else {
                    let missing = if self.any { self.needs } else { self.needs & !*conds };
                    s.idle();
                    self.phase = LoopPhase::Checked(missing);
                }
            }
            LoopPhase::Checked(missing) => {
                let w = self.w.clone();
                let sig = Signals::from_bits_truncate(missing);
                let mut fut: WaitFut = Box::pin(async move { w.wait_for(sig).await });
                let r = s.poll(|cx| fut.as_mut().poll(cx));
                self.phase = if r.is_pending() { LoopPhase::Waiting(fut) } else { LoopPhase::Run };
            }
            LoopPhase::Waiting(mut fut) => {
                let r = s.poll(|cx| fut.as_mut().poll(cx));
                self.phase = if r.is_pending() { LoopPhase::Waiting(fut) } else { LoopPhase::Run };
            }
            LoopPhase::Done => {
                s.idle();
                self.phase = LoopPhase::Done;
            }
        }
    }
    /// run until the task blocks (Pending inside wait_for) or ends
    fn drive(&mut self, conds: &mut u16, s: &mut Sleeper) -> Outcome {
        for _ in 0..64 {
            match self.phase {
                LoopPhase::Waiting(_) if s.pending.is_some() && !s.woken() => return Ok(()),
                LoopPhase::Done => return Ok(()),
                _ => self.advance(conds, s),
            }
        }
        Err(harness("burst loop does not block"))
    }
}

struct SendWakerP {
    l: BurstLoop,
    s: [Sleeper; 1],
    conds: u16,
    /// condition set, its wake_by not yet issued
    dirty: u16,
}

impl Proto for SendWakerP {
    const NAME: &'static str = "sendwaker";
    const SPLIT: bool = true;
    const OPS: &'static [OpInfo] = &[
        op("task_step", Who::W(0), 7),
        op("set_A", Who::N(0), 2),
        op("wake_by_A", Who::N(0), 2),
        op("set_B", Who::N(1), 2),
        op("wake_by_B", Who::N(1), 2),
        op("wake_by_C", Who::N(1), 1),
    ];
    const CFGS: u8 = 3;
    fn new(cfg: u8) -> Result<Self, Fail> {
        let (needs, any) = match cfg {
            0 => (SIG_A, false),
            1 => (SIG_A | SIG_B, false),
            _ => (SIG_A | SIG_B, true),
        };
        Ok(Self { l: BurstLoop::new(needs, any), s: sleepers(), conds: 0, dirty: 0 })
    }
    fn step(&mut self, o: usize) -> Outcome {
        match o {
            0 => self.l.advance(&mut self.conds, &mut self.s[0]),
            1 => {
                self.conds |= SIG_A;
                self.dirty |= SIG_A;
            }
            2 => {
                self.l.w.wake_by(Signals::from_bits_truncate(SIG_A));
                self.dirty &= !SIG_A;
            }
            3 => {
                self.conds |= SIG_B;
                self.dirty |= SIG_B;
            }
            4 => {
                self.l.w.wake_by(Signals::from_bits_truncate(SIG_B));
                self.dirty &= !SIG_B;
            }
            _ => self.l.w.wake_by(Signals::from_bits_truncate(SIG_C)),
        }
        Ok(())
    }
    fn sleepers(&self) -> &[Sleeper] {
        &self.s
    }
    fn repoll(&mut self, _: usize) -> Outcome {
        self.l.advance(&mut self.conds, &mut self.s[0]);
        self.l.drive(&mut self.conds, &mut self.s[0])
    }
    fn settle(&mut self) -> Outcome {
        // every notifier finishes: set, then wake_by
        for b in [SIG_A, SIG_B] {
            if self.dirty & b != 0 {
                self.l.w.wake_by(Signals::from_bits_truncate(b));
            }
        }
        self.dirty = 0;
        self.l.drive(&mut self.conds, &mut self.s[0])
    }
    fn would_proceed(&mut self, _: usize) -> Result<bool, Fail> {
        Ok(self.l.satisfied(self.conds))
    }
    fn mid_check(&self) -> bool {
        matches!(self.l.phase, LoopPhase::Checked(_))
    }
    fn describe(&self) -> String {
        format!("conditions true: {:#x}, needs {:#x} ({}), bursts sent {}", self.conds, self.l.needs, if self.l.any { "any" } else { "all" }, self.l.sends)
    }
}

// ---------------------------------------------------------------------------
// P: SendWakers (two paths, wake_all_by)
// ---------------------------------------------------------------------------

struct SendWakersP {
    all: ArcSendWakers,
    l: [BurstLoop; 2],
    s: [Sleeper; 2],
    paths: [Pathway; 2],
    conds: u16,
    dirty: u16,
    removed: bool,
}

fn pathway(i: u16) -> Pathway {
    let a: std::net::SocketAddr = format!("10.0.0.1:{}", 1000 + i).parse().unwrap();
    let b: std::net::SocketAddr = format!("10.0.0.2:{}", 2000 + i).parse().unwrap();
    Pathway::new(EndpointAddr::direct(a), EndpointAddr::direct(b))
}

impl Proto for SendWakersP {
    const NAME: &'static str = "sendwakers";
    const SPLIT: bool = true;
    const OPS: &'static [OpInfo] = &[
        op("task0_step", Who::W(0), 5),
        op("task1_step", Who::W(1), 4),
        op("set_A", Who::N(0), 2),
        op("wake_all_by_A", Who::N(0), 2),
        op("wake_all_by_C", Who::N(1), 1),
        op("remove_path1", Who::N(1), 1),
    ];
    fn new(_: u8) -> Result<Self, Fail> {
        let all = ArcSendWakers::new();
        let l = [BurstLoop::new(SIG_A, false), BurstLoop::new(SIG_A, false)];
        let paths = [pathway(0), pathway(1)];
        all.insert(paths[0], &l[0].w);
        all.insert(paths[1], &l[1].w);
        Ok(Self { all, l, s: sleepers(), paths, conds: 0, dirty: 0, removed: false })
    }
    fn enabled(&self, o: usize) -> bool {
        match o {
            1 => !self.removed,
            5 => !self.removed,
            _ => true,
        }
    }
    fn step(&mut self, o: usize) -> Outcome {
        match o {
            0 => self.l[0].advance(&mut self.conds, &mut self.s[0]),
            1 => self.l[1].advance(&mut self.conds, &mut self.s[1]),
            2 => {
                self.conds |= SIG_A;
                self.dirty |= SIG_A;
            }
            3 => {
                self.all.wake_all_by(Signals::from_bits_truncate(SIG_A));
                self.dirty = 0;
            }
            4 => self.all.wake_all_by(Signals::from_bits_truncate(SIG_C)),
            _ => {
                // the path is deactivated: its burst task ends
                self.all.remove(&self.paths[1]);
                self.removed = true;
                self.l[1].phase = LoopPhase::Done;
                self.s[1].idle();
            }
        }
        Ok(())
    }
    fn sleepers(&self) -> &[Sleeper] {
        &self.s
    }
    fn repoll(&mut self, w: usize) -> Outcome {
        self.l[w].advance(&mut self.conds, &mut self.s[w]);
        self.l[w].drive(&mut self.conds, &mut self.s[w])
    }
    fn settle(&mut self) -> Outcome {
        if self.dirty != 0 {
            self.all.wake_all_by(Signals::from_bits_truncate(SIG_A));
            self.dirty = 0;
        }
        for w in 0..2 {
            self.l[w].drive(&mut self.conds, &mut self.s[w])?;
        }
        Ok(())
    }
    fn would_proceed(&mut self, w: usize) -> Result<bool, Fail> {
        Ok(self.l[w].satisfied(self.conds))
    }
    fn mid_check(&self) -> bool {
        self.l.iter().any(|l| matches!(l.phase, LoopPhase::Checked(_)))
    }
    fn describe(&self) -> String {
        format!("conditions true: {:#x}, bursts sent {:?}", self.conds, [self.l[0].sends, self.l[1].sends])
    }
}

// ---------------------------------------------------------------------------
// P: CidCell::borrow_cid vs assign / retire (check+register in the cell is atomic, the wait is a second step)
// ---------------------------------------------------------------------------

enum CidPhase {
    Idle,
    Checked(u16),
    Waiting(WaitFut),
}

struct CidCellP {
    rc: ArcRemoteCids<Sink>,
    cell: ArcCidCell<Sink>,
    w: ArcSendWaker,
    phase: CidPhase,
    s: [Sleeper; 1],
    next_seq: u64,
    rpt: u64,
    retired: bool,
    borrowed: u32,
}

impl CidCellP {
    fn advance(&mut self) {
        match std::mem::replace(&mut self.phase, CidPhase::Idle) {
            CidPhase::Idle => {
                self.s[0].idle();
                match self.cell.borrow_cid(self.w.clone()) {
                    Ok(Some(b)) => {
                        drop(b);
                        self.borrowed += 1;
                    }
                    Ok(None) => {}
                    Err(sig) => self.phase = CidPhase::Checked(sig.bits()),
                };
            }
            CidPhase::Checked(missing) => {
                let w = self.w.clone();
                let sig = Signals::from_bits_truncate(missing);
                let mut fut: WaitFut = Box::pin(async move { w.wait_for(sig).await });
                let r = self.s[0].poll(|cx| fut.as_mut().poll(cx));
                self.phase = if r.is_pending() { CidPhase::Waiting(fut) } else { CidPhase::Idle };
            }
            CidPhase::Waiting(mut fut) => {
                let r = self.s[0].poll(|cx| fut.as_mut().poll(cx));
                self.phase = if r.is_pending() { CidPhase::Waiting(fut) } else { CidPhase::Idle };
            }
        }
    }
}

impl Proto for CidCellP {
    const NAME: &'static str = "cid-cell";
    const SPLIT: bool = true;
    const OPS: &'static [OpInfo] = &[
        op("task_step", Who::W(0), 6),
        op("new_connection_id", Who::N(0), 2),
        op("new_connection_id_retire_prior", Who::N(0), 1),
        op("cell_retire", Who::N(1), 1),
        op("wake_by_other", Who::N(1), 1),
    ];
    fn new(_: u8) -> Result<Self, Fail> {
        let rc = ArcRemoteCids::new(8, Sink);
        let cell0 = rc.apply_dcid();
        rc.apply_initial_dcid(ConnectionId::from_slice(&[0xa0; 8]), &cell0);
        // a second path asks for its own connection ID; none is available yet
        let cell = rc.apply_dcid();
        Ok(Self { rc, cell, w: ArcSendWaker::new(), phase: CidPhase::Idle, s: sleepers(), next_seq: 1, rpt: 0, retired: false, borrowed: 0 })
    }
    fn enabled(&self, o: usize) -> bool {
        // the peer respects active_connection_id_limit
        !(o == 1 && self.next_seq - self.rpt >= 8)
    }
    fn step(&mut self, o: usize) -> Outcome {
        match o {
            0 => self.advance(),
            1 | 2 => {
                let seq = self.next_seq;
                self.next_seq += 1;
                if o == 2 {
                    self.rpt = seq;
                }
                let rpt = self.rpt;
                let cid = ConnectionId::from_slice(&[seq as u8; 8]);
                self.rc
                    .recv_frame(NewConnectionIdFrame::new(cid, vi(seq), vi(rpt)))
                    .map_err(|e| harness(format!("NEW_CONNECTION_ID rejected: {e:?}")))?;
            }
            3 => {
                self.cell.retire();
                self.retired = true;
            }
            _ => self.w.wake_by(Signals::TRANSPORT),
        }
        Ok(())
    }
    fn sleepers(&self) -> &[Sleeper] {
        &self.s
    }
    fn repoll(&mut self, _: usize) -> Outcome {
        // woken: wait_for returns, the loop borrows again, possibly waits again
        self.advance();
        if matches!(self.phase, CidPhase::Idle) {
            self.advance();
        }
        if matches!(self.phase, CidPhase::Checked(_)) {
            self.advance();
        }
        Ok(())
    }
    fn settle(&mut self) -> Outcome {
        if matches!(self.phase, CidPhase::Checked(_)) {
            self.advance();
        }
        Ok(())
    }
    fn would_proceed(&mut self, _: usize) -> Result<bool, Fail> {
        let scratch = ArcSendWaker::new();
        Ok(self.cell.borrow_cid(scratch).is_ok())
    }
    fn mid_check(&self) -> bool {
        matches!(self.phase, CidPhase::Checked(_))
    }
    fn closed(&self) -> bool {
        self.retired
    }
    fn describe(&self) -> String {
        format!("borrowed {} times, next seq {}", self.borrowed, self.next_seq)
    }
}

// ---------------------------------------------------------------------------
// P: util::Wakers fan-out (combine_with = register, then poll the inner single-slot resource)
// ---------------------------------------------------------------------------

/// Stands for the socket: level-triggered readiness with ONE waker slot (harness-owned).
#[derive(Default)]
struct Slot {
    ready: bool,
    waker: Option<Waker>,
}

impl Slot {
    fn poll(&mut self, cx: &mut Context<'_>) -> Poll<()> {
        if self.ready {
            Poll::Ready(())
        } else {
            self.waker = Some(cx.waker().clone());
            Poll::Pending
        }
    }
}

struct FanOut {
    wk: Arc<Wakers<4>>,
    slot: Slot,
    s: [Sleeper; 2],
    /// split waiter 0: registered (count at registration), inner poll not done yet
    registered: Option<usize>,
}

impl Proto for FanOut {
    const NAME: &'static str = "wakers-fanout";
    const SPLIT: bool = true;
    const OPS: &'static [OpInfo] = &[
        op("w0_combine_with", Who::W(0), 2),
        op("w1_combine_with", Who::W(1), 3),
        op("w0_split_step", Who::W(0), 4),
        op("fire", Who::N(0), 2),
        op("clear", Who::N(0), 1),
        // the real `combine_with`, with the readiness event landing after the inner poll has
        // registered the combined waker and before `combine_with` returns (the I/O driver runs on
        // another thread): the caller's own waker must already be in the set
        op("w1_combine_with_fired_inside", Who::W(1), 2),
    ];
    fn new(_: u8) -> Result<Self, Fail> {
        Ok(Self { wk: Arc::new(Wakers::new()), slot: Slot::default(), s: sleepers(), registered: None })
    }
    fn enabled(&self, o: usize) -> bool {
        // waiter 0 finishes a split poll before it starts another poll
        !(o == 0 && self.registered.is_some())
    }
    fn step(&mut self, o: usize) -> Outcome {
        match o {
            0 | 1 => {
                let wk = self.wk.clone();
                let slot = &mut self.slot;
                let _ = self.s[o].poll(|cx| wk.combine_with(cx, |icx| slot.poll(icx)));
            }
            2 => match self.registered.take() {
                None => {
                    // first half of combine_with
                    self.s[0].idle();
                    self.registered = Some(self.s[0].wakes());
                    self.wk.register(&self.s[0].waker);
                }
                Some(before) => {
                    // second half
                    let inner = self.wk.to_waker();
                    let r = self.slot.poll(&mut Context::from_waker(&inner));
                    self.s[0].mark(before, r.is_pending());
                }
            },
            3 => {
                self.slot.ready = true;
                if let Some(w) = self.slot.waker.take() {
                    w.wake();
                }
            }
            5 => {
                let wk = self.wk.clone();
                let slot = &mut self.slot;
                let _ = self.s[1].poll(|cx| {
                    wk.combine_with(cx, |icx| {
                        let r = slot.poll(icx);
                        if r.is_pending() {
                            slot.ready = true;
                            if let Some(w) = slot.waker.take() {
                                w.wake();
                            }
                        }
                        r
                    })
                });
            }
            _ => self.slot.ready = false,
        }
        Ok(())
    }
    fn sleepers(&self) -> &[Sleeper] {
        &self.s
    }
    fn repoll(&mut self, w: usize) -> Outcome {
        self.step(w)
    }
    fn settle(&mut self) -> Outcome {
        if self.registered.is_some() {
            self.step(2)?;
        }
        Ok(())
    }
    fn mid_check(&self) -> bool {
        self.registered.is_some()
    }
}

// ---------------------------------------------------------------------------
// P: Parameters::poll_ready (atomic; several waiters)
// ---------------------------------------------------------------------------

struct ParamsP {
    p: ArcParameters,
    server: bool,
    s: [Sleeper; 2],
    recvd: bool,
    scid: bool,
    errored: bool,
    failed: bool,
}

fn cid(b: u8) -> ConnectionId {
    ConnectionId::from_slice(&[b; 8])
}

fn good_server_params() -> ServerParameters {
    let mut sp = ServerParameters::new();
    sp.set(ParameterId::InitialSourceConnectionId, cid(2)).unwrap();
    sp.set(ParameterId::OriginalDestinationConnectionId, cid(1)).unwrap();
    sp
}

impl Proto for ParamsP {
    const NAME: &'static str = "parameters";
    const CFGS: u8 = 2;
    const OPS: &'static [OpInfo] = &[
        op("w0_poll_ready", Who::W(0), 2),
        op("w1_poll_ready", Who::W(1), 2),
        op("recv_remote_params", Who::N(0), 1),
        op("initial_scid_from_peer", Who::N(1), 1),
        op("recv_remote_params_mismatching", Who::N(0), 1),
        op("on_conn_error", Who::N(1), 1),
    ];
    fn new(cfg: u8) -> Result<Self, Fail> {
        let server = cfg == 1;
        let p: ArcParameters = if server {
            Parameters::new_server(ServerParameters::new()).into()
        } else {
            Parameters::new_client(ClientParameters::new(), None, cid(1)).into()
        };
        Ok(Self { p, server, s: sleepers(), recvd: false, scid: false, errored: false, failed: false })
    }
    fn enabled(&self, o: usize) -> bool {
        match o {
            2 | 4 => !self.recvd,
            3 => !self.scid,
            5 => !self.errored,
            _ => true,
        }
    }
    fn step(&mut self, o: usize) -> Outcome {
        match o {
            0 | 1 => {
                let p = &self.p;
                let _ = self.s[o].poll(|cx| match p.lock_guard() {
                    Ok(mut g) => g.poll_ready(cx),
                    Err(_) => Poll::Ready(()),
                });
            }
            2 | 4 => {
                self.recvd = true;
                let peer_scid = if o == 2 { cid(2) } else { cid(9) };
                if let Ok(mut g) = self.p.lock_guard() {
                    let r = if self.server {
                        let mut cp = ClientParameters::new();
                        cp.set(ParameterId::InitialSourceConnectionId, peer_scid).unwrap();
                        g.recv_remote_params(cp)
                    } else {
                        let mut sp = good_server_params();
                        sp.set(ParameterId::InitialSourceConnectionId, peer_scid).unwrap();
                        g.recv_remote_params(sp)
                    };
                    if r.is_err() {
                        self.failed = true;
                    }
                }
            }
            3 => {
                self.scid = true;
                if let Ok(mut g) = self.p.lock_guard() {
                    if g.initial_scid_from_peer_need_equal(cid(2)).is_err() {
                        self.failed = true;
                    }
                }
            }
            _ => {
                self.p.on_conn_error(&conn_error());
                self.errored = true;
            }
        }
        Ok(())
    }
    fn sleepers(&self) -> &[Sleeper] {
        &self.s
    }
    fn repoll(&mut self, w: usize) -> Outcome {
        self.step(w)
    }
    fn settle(&mut self) -> Outcome {
        // a transport-parameter error closes the connection, which fails the parameters
        if self.failed && !self.errored {
            self.step(5)?;
        }
        Ok(())
    }
    fn closed(&self) -> bool {
        self.errored
    }
}

// ---------------------------------------------------------------------------
// P: LocalStreamIds::poll_alloc_sid vs MAX_STREAMS / revise_max_streams (atomic; several waiters)
// ---------------------------------------------------------------------------

struct LocalSidP {
    ids: ArcLocalStreamIds<Sink>,
    s: [Sleeper; 3],
    max: [u64; 2],
    revised: bool,
    maxed: bool,
}

impl Proto for LocalSidP {
    const NAME: &'static str = "local-sid";
    const CFGS: u8 = 2;
    const OPS: &'static [OpInfo] = &[
        op("w0_poll_alloc_bi", Who::W(0), 3),
        op("w1_poll_alloc_bi", Who::W(1), 2),
        op("w2_poll_alloc_uni", Who::W(2), 2),
        op("max_streams_bi+1", Who::N(0), 3),
        op("max_streams_bi_same", Who::N(0), 1),
        op("max_streams_uni+1", Who::N(1), 1),
        op("revise_0rtt_rejected", Who::N(1), 1),
    ];
    fn new(cfg: u8) -> Result<Self, Fail> {
        // cfg 1: a client that remembers the server's limits (0-RTT)
        let m = if cfg == 1 { 1 } else { 0 };
        let ids = ArcLocalStreamIds::new(Role::Client, m, m, Sink, ArcSendWakers::new());
        Ok(Self { ids, s: sleepers(), max: [m, m], revised: false, maxed: false })
    }
    fn enabled(&self, o: usize) -> bool {
        // 1-RTT frames cannot arrive before the handshake applied the real parameters
        !(o == 6 && (self.revised || self.maxed))
    }
    fn step(&mut self, o: usize) -> Outcome {
        match o {
            0 | 1 | 2 => {
                let dir = if o == 2 { Dir::Uni } else { Dir::Bi };
                let ids = &self.ids;
                let _ = self.s[o].poll(|cx| ids.poll_alloc_sid(cx, dir));
            }
            3 => {
                self.max[0] += 1;
                self.maxed = true;
                self.ids.recv_max_streams_frame(MaxStreamsFrame::with(Dir::Bi, vi(self.max[0])));
            }
            4 => {
                self.maxed = true;
                self.ids.recv_max_streams_frame(MaxStreamsFrame::with(Dir::Bi, vi(self.max[0])));
            }
            5 => {
                self.max[1] += 1;
                self.maxed = true;
                self.ids.recv_max_streams_frame(MaxStreamsFrame::with(Dir::Uni, vi(self.max[1])));
            }
            _ => {
                self.revised = true;
                self.max = [2, 0];
                self.ids.revise_max_streams(true, 2, 0);
            }
        }
        Ok(())
    }
    fn sleepers(&self) -> &[Sleeper] {
        &self.s
    }
    fn repoll(&mut self, w: usize) -> Outcome {
        self.step(w)
    }
}

// ---------------------------------------------------------------------------
// key material for the key-state protocols (real rustls keys; one in-memory handshake per process)
// ---------------------------------------------------------------------------

const SERVER_CERT: &[u8] = include_bytes!("/repo/tests/keychain/localhost/server.cert");
const SERVER_KEY: &[u8] = include_bytes!("/repo/tests/keychain/localhost/server.key");

mod tls {
    use std::sync::Arc;

    use rustls::{
        DigitallySignedStruct, SignatureScheme,
        client::danger::{HandshakeSignatureValid, ServerCertVerified, ServerCertVerifier},
        pki_types::{CertificateDer, PrivateKeyDer, ServerName, UnixTime, pem::PemObject},
        quic::{ClientConnection, Connection, KeyChange, ServerConnection, Version},
    };

    #[derive(Debug)]
    struct AcceptAny(Arc<rustls::crypto::CryptoProvider>);
    impl ServerCertVerifier for AcceptAny {
        fn verify_server_cert(
            &self,
            _: &CertificateDer<'_>,
            _: &[CertificateDer<'_>],
            _: &ServerName<'_>,
            _: &[u8],
            _: UnixTime,
        ) -> Result<ServerCertVerified, rustls::Error> {
            Ok(ServerCertVerified::assertion())
        }
        fn verify_tls12_signature(
            &self,
            m: &[u8],
            c: &CertificateDer<'_>,
            d: &DigitallySignedStruct,
        ) -> Result<HandshakeSignatureValid, rustls::Error> {
            rustls::crypto::verify_tls12_signature(m, c, d, &self.0.signature_verification_algorithms)
        }
        fn verify_tls13_signature(
            &self,
            m: &[u8],
            c: &CertificateDer<'_>,
            d: &DigitallySignedStruct,
        ) -> Result<HandshakeSignatureValid, rustls::Error> {
            rustls::crypto::verify_tls13_signature(m, c, d, &self.0.signature_verification_algorithms)
        }
        fn supported_verify_schemes(&self) -> Vec<SignatureScheme> {
            self.0.signature_verification_algorithms.supported_schemes()
        }
    }

    fn step(
        from: &mut Connection,
        to: &mut Connection,
        out: &mut Option<(rustls::quic::Keys, rustls::quic::Secrets)>,
    ) -> bool {
        let mut progressed = false;
        loop {
            let mut buf = Vec::new();
            let change = from.write_hs(&mut buf);
            if buf.is_empty() && change.is_none() {
                break;
            }
            progressed = true;
            if !buf.is_empty() {
                to.read_hs(&buf).expect("in-memory TLS handshake failed (read_hs)");
            }
            if let Some(KeyChange::OneRtt { keys, next }) = change {
                *out = Some((keys, next));
            }
        }
        progressed
    }

    /// One in-memory QUIC-TLS handshake; returns the client's 1-RTT keys and secrets.
    pub fn one_rtt() -> (rustls::quic::Keys, rustls::quic::Secrets) {
        let provider = Arc::new(rustls::crypto::ring::default_provider());
        let certs: Vec<CertificateDer<'static>> =
            CertificateDer::pem_slice_iter(super::SERVER_CERT).collect::<Result<_, _>>().expect("server.cert");
        let key = PrivateKeyDer::from_pem_slice(super::SERVER_KEY).expect("server.key");
        let server = rustls::ServerConfig::builder_with_provider(provider.clone())
            .with_protocol_versions(&[&rustls::version::TLS13])
            .unwrap()
            .with_no_client_auth()
            .with_single_cert(certs, key)
            .expect("server config");
        let client = rustls::ClientConfig::builder_with_provider(provider.clone())
            .with_protocol_versions(&[&rustls::version::TLS13])
            .unwrap()
            .dangerous()
            .with_custom_certificate_verifier(Arc::new(AcceptAny(provider)))
            .with_no_client_auth();
        let params = vec![0x01, 0x02, 0x67, 0x10];
        let mut c: Connection =
            ClientConnection::new(Arc::new(client), Version::V1, ServerName::try_from("localhost").unwrap(), params.clone())
                .expect("client connection")
                .into();
        let mut s: Connection = ServerConnection::new(Arc::new(server), Version::V1, params).expect("server connection").into();
        let mut got_c = None;
        let mut got_s = None;
        for _ in 0..12 {
            let a = step(&mut c, &mut s, &mut got_c);
            let b = step(&mut s, &mut c, &mut got_s);
            if !a && !b && !c.is_handshaking() && !s.is_handshaking() {
                break;
            }
        }
        got_c.expect("client 1-RTT keys")
    }
}

struct HpW(Arc<dyn rustls::quic::HeaderProtectionKey>);
impl rustls::quic::HeaderProtectionKey for HpW {
    fn encrypt_in_place(&self, sample: &[u8], first: &mut u8, pn: &mut [u8]) -> Result<(), rustls::Error> {
        self.0.encrypt_in_place(sample, first, pn)
    }
    fn decrypt_in_place(&self, sample: &[u8], first: &mut u8, pn: &mut [u8]) -> Result<(), rustls::Error> {
        self.0.decrypt_in_place(sample, first, pn)
    }
    fn sample_len(&self) -> usize {
        self.0.sample_len()
    }
}
struct PkW(Arc<dyn rustls::quic::PacketKey>);
impl rustls::quic::PacketKey for PkW {
    fn encrypt_in_place(&self, pn: u64, header: &[u8], payload: &mut [u8]) -> Result<rustls::quic::Tag, rustls::Error> {
        self.0.encrypt_in_place(pn, header, payload)
    }
    fn decrypt_in_place<'a>(&self, pn: u64, header: &[u8], payload: &'a mut [u8]) -> Result<&'a [u8], rustls::Error> {
        self.0.decrypt_in_place(pn, header, payload)
    }
    fn tag_len(&self) -> usize {
        self.0.tag_len()
    }
    fn confidentiality_limit(&self) -> u64 {
        self.0.confidentiality_limit()
    }
    fn integrity_limit(&self) -> u64 {
        self.0.integrity_limit()
    }
}

fn rebox(k: &QKeys) -> rustls::quic::Keys {
    rustls::quic::Keys {
        local: rustls::quic::DirectionalKeys {
            header: Box::new(HpW(k.local.header.clone())),
            packet: Box::new(PkW(k.local.packet.clone())),
        },
        remote: rustls::quic::DirectionalKeys {
            header: Box::new(HpW(k.remote.header.clone())),
            packet: Box::new(PkW(k.remote.packet.clone())),
        },
    }
}

struct Material {
    long: QKeys,
    one_rtt: (QKeys, rustls::quic::Secrets),
}

fn material() -> &'static Material {
    static M: OnceLock<Material> = OnceLock::new();
    M.get_or_init(|| {
        // `qconnection/src/builder.rs::initial_keys_with`
        let provider = rustls::crypto::ring::default_provider();
        let long: QKeys = provider
            .cipher_suites
            .iter()
            .find_map(|cs| match (cs.suite(), cs.tls13()) {
                (rustls::CipherSuite::TLS13_AES_128_GCM_SHA256, Some(suite)) => Some(suite.quic_suite()),
                _ => None,
            })
            .flatten()
            .expect("cipher suite")
            .keys(&[1, 2, 3, 4, 5, 6, 7, 8], rustls::Side::Client, rustls::quic::Version::V1)
            .into();
        let (k, sec) = tls::one_rtt();
        Material { long, one_rtt: (QKeys::from(k), sec) }
    })
}

// ---------------------------------------------------------------------------
// P: KeysState / ArcKeys / ArcZeroRttKeys / ArcOneRttKeys  (atomic poll; one decrypting task by contract)
// ---------------------------------------------------------------------------

enum KeysObj {
    Long(ArcKeys),
    Zero(ArcZeroRttKeys),
    One(ArcOneRttKeys),
}

struct KeysP {
    k: KeysObj,
    s: [Sleeper; 1],
    set: bool,
    invalid: bool,
}

impl Proto for KeysP {
    const NAME: &'static str = "keys";
    const CFGS: u8 = 3;
    const OPS: &'static [OpInfo] = &[
        op("poll_get_remote_keys", Who::W(0), 3),
        op("set_keys", Who::N(0), 1),
        op("invalid", Who::N(1), 2),
    ];
    fn new(cfg: u8) -> Result<Self, Fail> {
        let k = match cfg {
            0 => KeysObj::Long(ArcKeys::new_pending()),
            1 => KeysObj::Zero(ArcZeroRttKeys::new_pending(Role::Server)),
            _ => KeysObj::One(ArcOneRttKeys::new_pending()),
        };
        Ok(Self { k, s: sleepers(), set: false, invalid: false })
    }
    fn enabled(&self, o: usize) -> bool {
        match o {
            // set twice / after invalidation is `unreachable!` by contract
            1 => !self.set && !self.invalid,
            // ArcOneRttKeys::invalid twice is `unreachable!` by contract
            2 => !(self.invalid && matches!(self.k, KeysObj::One(_))),
            _ => true,
        }
    }
    fn step(&mut self, o: usize) -> Outcome {
        match o {
            0 => {
                let k = &self.k;
                let _ = self.s[0].poll(|cx| match k {
                    KeysObj::Long(k) => Pin::new(&mut k.get_remote_keys()).poll(cx).map(|_| ()),
                    KeysObj::Zero(k) => Pin::new(&mut k.get_decrypt_keys().expect("server role")).poll(cx).map(|_| ()),
                    KeysObj::One(k) => Pin::new(&mut k.get_remote_keys()).poll(cx).map(|_| ()),
                });
            }
            1 => {
                self.set = true;
                let m = material();
                match &self.k {
                    KeysObj::Long(k) => k.set_keys(m.long.clone()),
                    KeysObj::Zero(k) => k.set_keys(DirectionalKeys { header: m.long.remote.header.clone(), packet: m.long.remote.packet.clone() }),
                    KeysObj::One(k) => k.set_keys(rebox(&m.one_rtt.0), m.one_rtt.1.clone()),
                }
            }
            _ => {
                self.invalid = true;
                match &self.k {
                    KeysObj::Long(k) => drop(k.invalid()),
                    KeysObj::Zero(k) => drop(k.invalid()),
                    KeysObj::One(k) => drop(k.invalid()),
                }
            }
        }
        Ok(())
    }
    fn sleepers(&self) -> &[Sleeper] {
        &self.s
    }
    fn repoll(&mut self, _: usize) -> Outcome {
        self.step(0)
    }
    fn closed(&self) -> bool {
        self.invalid
    }
}

// ---------------------------------------------------------------------------
// P: crypto stream reader (atomic poll_read; one reading task, asserted by the code)
// ---------------------------------------------------------------------------

const CHUNK: usize = 3;

struct CryptoReaderP {
    reader: CryptoStreamReader,
    incoming: CryptoStreamIncoming,
    s: [Sleeper; 1],
    /// chunks delivered so far
    have: Vec<bool>,
}

impl CryptoReaderP {
    fn first_missing(&self) -> usize {
        self.have.iter().position(|h| !*h).unwrap_or(self.have.len())
    }
    fn deliver(&mut self, i: usize) {
        if self.have.len() <= i {
            self.have.resize(i + 1, false);
        }
        self.have[i] = true;
        let data = Bytes::from(gens::content(16, (i * CHUNK) as u64, CHUNK));
        let _ = self.incoming.recv_frame((CryptoFrame::new(vi((i * CHUNK) as u64), vi(CHUNK as u64)), data));
    }
}

impl Proto for CryptoReaderP {
    const NAME: &'static str = "crypto-reader";
    const OPS: &'static [OpInfo] = &[
        op("poll_read", Who::W(0), 3),
        op("recv_next", Who::N(0), 2),
        op("recv_ahead", Who::N(0), 1),
        op("recv_duplicate", Who::N(1), 1),
    ];
    fn new(_: u8) -> Result<Self, Fail> {
        let st = CryptoStream::new(ArcSendWakers::new());
        Ok(Self { reader: st.reader(), incoming: st.incoming(), s: sleepers(), have: vec![] })
    }
    fn step(&mut self, o: usize) -> Outcome {
        match o {
            0 => {
                let reader = &mut self.reader;
                let mut dst = [0u8; 4];
                let mut rb = ReadBuf::new(&mut dst);
                let _ = self.s[0].poll(|cx| Pin::new(reader).poll_read(cx, &mut rb));
            }
            1 => {
                let i = self.first_missing();
                self.deliver(i);
            }
            2 => {
                let i = self.first_missing() + 1;
                self.deliver(i);
            }
            _ => self.deliver(0),
        }
        Ok(())
    }
    fn sleepers(&self) -> &[Sleeper] {
        &self.s
    }
    fn repoll(&mut self, _: usize) -> Outcome {
        self.step(0)
    }
}

// ---------------------------------------------------------------------------
// P: crypto stream writer: poll_write / poll_flush vs transmission and acknowledgement
// ---------------------------------------------------------------------------

struct CryptoWriterP {
    writer: CryptoStreamWriter,
    outgoing: CryptoStreamOutgoing,
    s: [Sleeper; 1],
    /// frames sent, and whether they were acknowledged
    frames: Vec<(CryptoFrame, bool)>,
    flushing: bool,
}

impl Proto for CryptoWriterP {
    const NAME: &'static str = "crypto-writer";
    const OPS: &'static [OpInfo] = &[
        op("poll_flush", Who::W(0), 3),
        op("poll_write", Who::W(0), 2),
        op("load_into_packet", Who::N(0), 2),
        op("ack_all_sent", Who::N(1), 2),
        op("lose_all_sent", Who::N(1), 1),
    ];
    fn new(_: u8) -> Result<Self, Fail> {
        let st = CryptoStream::new(ArcSendWakers::new());
        Ok(Self { writer: st.writer(), outgoing: st.outgoing(), s: sleepers(), frames: vec![], flushing: false })
    }
    fn step(&mut self, o: usize) -> Outcome {
        match o {
            0 => {
                let w = &mut self.writer;
                let _ = self.s[0].poll(|cx| Pin::new(w).poll_flush(cx));
                self.flushing = true;
            }
            1 => {
                let w = &mut self.writer;
                let r = self.s[0].poll(|cx| Pin::new(w).poll_write(cx, b"hello"));
                self.flushing = false;
                ensure!(matches!(r, Poll::Ready(Ok(5))), "harness", "crypto poll_write = {r:?}");
            }
            2 => {
                let mut pkt = Packet::new(1200);
                let _ = self.outgoing.try_load_data_into(&mut pkt, false);
                self.frames.extend(pkt.cryptos.drain(..).map(|f| (f, false)));
            }
            3 => {
                for (f, acked) in self.frames.iter_mut().filter(|(_, a)| !*a) {
                    self.outgoing.on_data_acked(f);
                    *acked = true;
                }
            }
            _ => {
                for (f, _) in self.frames.iter().filter(|(_, a)| !*a) {
                    self.outgoing.may_loss_data(f);
                }
            }
        }
        Ok(())
    }
    fn sleepers(&self) -> &[Sleeper] {
        &self.s
    }
    fn repoll(&mut self, _: usize) -> Outcome {
        self.step(if self.flushing { 0 } else { 1 })
    }
    fn lost_signature(&self, _: usize) -> String {
        if self.flushing { "crypto-writer:flush-never-woken".into() } else { "crypto-writer:lost-wakeup".into() }
    }
}

// ---------------------------------------------------------------------------
// P: DatagramReader::poll_recv vs recv_datagram / on_conn_error (atomic; DatagramReader is Clone)
// ---------------------------------------------------------------------------

struct DgramP {
    incoming: DatagramIncoming,
    readers: [DatagramReader; 2],
    two: bool,
    s: [Sleeper; 2],
    /// the waker this reader stored was replaced by the other reader's
    overwritten: [bool; 2],
    errored: bool,
}

impl Proto for DgramP {
    const NAME: &'static str = "datagram-reader";
    const CFGS: u8 = 2;
    const OPS: &'static [OpInfo] = &[
        op("r0_poll_recv", Who::W(0), 3),
        op("r1_poll_recv", Who::W(1), 2),
        op("recv_datagram", Who::N(0), 2),
        op("on_conn_error", Who::N(1), 1),
    ];
    fn new(cfg: u8) -> Result<Self, Fail> {
        let incoming = DatagramIncoming::new(1200);
        let r = |i: &DatagramIncoming| i.new_reader().map_err(|e| harness(format!("new_reader: {e}")));
        let readers = [r(&incoming)?, r(&incoming)?];
        Ok(Self { incoming, readers, two: cfg == 1, s: sleepers(), overwritten: [false; 2], errored: false })
    }
    fn enabled(&self, o: usize) -> bool {
        match o {
            1 => self.two,
            3 => !self.errored,
            _ => true,
        }
    }
    fn step(&mut self, o: usize) -> Outcome {
        match o {
            0 | 1 => {
                let rd = &self.readers[o];
                let r = self.s[o].poll(|cx| rd.poll_recv(cx));
                self.overwritten[o] = false;
                if r.is_pending() && self.s[1 - o].asleep() {
                    self.overwritten[1 - o] = true;
                }
            }
            2 => {
                let _ = self.incoming.recv_datagram(DatagramFrame::new(true, vi(3)), Bytes::from_static(b"abc"));
            }
            _ => {
                self.incoming.on_conn_error(&conn_error());
                self.errored = true;
            }
        }
        Ok(())
    }
    fn sleepers(&self) -> &[Sleeper] {
        &self.s
    }
    fn repoll(&mut self, w: usize) -> Outcome {
        self.step(w)
    }
    fn closed(&self) -> bool {
        self.errored
    }
    fn lost_signature(&self, w: usize) -> String {
        if self.overwritten[w] {
            "datagram-reader:waker-overwritten-by-second-reader".into()
        } else if self.errored {
            "datagram-reader:sleeps-after-close".into()
        } else {
            "datagram-reader:lost-wakeup".into()
        }
    }
}

// ---------------------------------------------------------------------------
// DataStreams rigs
// ---------------------------------------------------------------------------

type Streams = DataStreams<Sink>;

fn set<R: qbase::role::IntoRole + Default>(p: &mut qbase::param::core::Parameters<R>, id: ParameterId, v: u32) -> Outcome {
    p.set(id, v).map_err(|e| harness(format!("set {id:?}: {e:?}")))
}

/// Client side with one locally opened bidirectional stream (server parameters remembered, as c09 does).
fn client_with_stream(peer_window: u32) -> Result<(Streams, StreamId, Reader<Ext<Sink>>, Writer<Ext<Sink>>), Fail> {
    let mut cp = ClientParameters::new();
    set(&mut cp, ParameterId::InitialMaxStreamDataBidiLocal, 1000)?;
    let mut sp = ServerParameters::new();
    set(&mut sp, ParameterId::InitialMaxStreamsBidi, 4)?;
    set(&mut sp, ParameterId::InitialMaxStreamDataBidiRemote, peer_window)?;
    set(&mut sp, ParameterId::InitialMaxData, 100_000)?;
    let streams = DataStreams::new(
        Role::Client,
        &cp,
        &sp,
        Box::new(ConsistentConcurrency::new(4, 4)),
        Sink,
        ArcSendWakers::new(),
        None,
    );
    let params: ArcParameters = Parameters::new_client(cp, Some(sp), cid(1)).into();
    let w = futures::task::noop_waker();
    let mut cx = Context::from_waker(&w);
    let opened = Pin::new(&mut streams.open_bi(&params)).poll(&mut cx);
    match opened {
        Poll::Ready(Ok(Some((sid, (r, wtr))))) => Ok((streams, sid, r, wtr)),
        _ => Err(harness("open_bi did not yield a stream")),
    }
}

// ---------------------------------------------------------------------------
// P: stream Reader (poll_read / poll_next) vs recv_data, RESET_STREAM, on_conn_error
// ---------------------------------------------------------------------------

struct StreamReaderP {
    streams: Streams,
    sid: StreamId,
    reader: Reader<Ext<Sink>>,
    _writer: Writer<Ext<Sink>>,
    next_mode: bool,
    s: [Sleeper; 1],
    have: Vec<bool>,
    fin: bool,
    reset: bool,
    errored: bool,
    failed: bool,
}

impl StreamReaderP {
    fn first_missing(&self) -> usize {
        self.have.iter().position(|h| !*h).unwrap_or(self.have.len())
    }
    fn largest(&self) -> u64 {
        (self.have.len() * CHUNK) as u64
    }
    fn deliver(&mut self, i: usize) -> Outcome {
        if self.have.len() <= i {
            self.have.resize(i + 1, false);
        }
        self.have[i] = true;
        let data = Bytes::from(gens::content(17, (i * CHUNK) as u64, CHUNK));
        let f = StreamFrame::new(self.sid, (i * CHUNK) as u64, CHUNK);
        self.streams.recv_data((f, data)).map(|_| ()).map_err(|e| harness(format!("STREAM frame rejected: {e:?}")))
    }
}

impl Proto for StreamReaderP {
    const NAME: &'static str = "stream-reader";
    const CFGS: u8 = 2;
    const OPS: &'static [OpInfo] = &[
        op("poll_read", Who::W(0), 3),
        op("recv_next", Who::N(0), 2),
        op("recv_ahead", Who::N(0), 1),
        op("recv_fin", Who::N(0), 1),
        op("reset_stream", Who::N(1), 1),
        op("reset_stream_smaller_final_size", Who::N(1), 1),
        op("on_conn_error", Who::N(1), 1),
    ];
    fn new(cfg: u8) -> Result<Self, Fail> {
        let (streams, sid, reader, writer) = client_with_stream(1000)?;
        Ok(Self {
            streams,
            sid,
            reader,
            _writer: writer,
            next_mode: cfg == 1,
            s: sleepers(),
            have: vec![],
            fin: false,
            reset: false,
            errored: false,
            failed: false,
        })
    }
    fn enabled(&self, o: usize) -> bool {
        match o {
            // a well-behaved peer sends nothing beyond the final size / after a reset
            1 => !self.reset && (!self.fin || self.first_missing() < self.have.len()) && self.have.len() < 40,
            2 => !self.reset && !self.fin && self.have.len() < 40,
            3 => !self.reset && !self.fin,
            4 => !self.reset,
            // a misbehaving one may shrink it
            5 => !self.reset && !self.have.is_empty(),
            6 => !self.errored,
            _ => true,
        }
    }
    fn step(&mut self, o: usize) -> Outcome {
        match o {
            0 => {
                let reader = &mut self.reader;
                if self.next_mode {
                    let _ = self.s[0].poll(|cx| Pin::new(reader).poll_next(cx));
                } else {
                    let mut dst = [0u8; 4];
                    let mut b = &mut dst[..];
                    let _ = self.s[0].poll(|cx| reader.poll_read(cx, &mut b));
                }
            }
            1 => {
                let i = self.first_missing();
                self.deliver(i)?;
            }
            2 => {
                let i = self.first_missing() + 1;
                self.deliver(i)?;
            }
            3 => {
                self.fin = true;
                let mut f = StreamFrame::new(self.sid, self.largest(), 0);
                f.set_eos_flag(true);
                self.streams.recv_data((f, Bytes::new())).map_err(|e| harness(format!("FIN rejected: {e:?}")))?;
            }
            4 | 5 => {
                self.reset = true;
                let fs = if o == 4 { self.largest() } else { self.largest() - 1 };
                let f = ResetStreamFrame::new(self.sid, vi(7), vi(fs));
                let r = self.streams.recv_stream_control(StreamCtlFrame::ResetStream(f));
                if o == 4 {
                    r.map_err(|e| harness(format!("RESET_STREAM rejected: {e:?}")))?;
                } else if r.is_err() {
                    // FINAL_SIZE_ERROR: the connection is closed with it
                    self.failed = true;
                }
            }
            _ => {
                self.streams.on_conn_error(&conn_error());
                self.errored = true;
            }
        }
        Ok(())
    }
    fn sleepers(&self) -> &[Sleeper] {
        &self.s
    }
    fn repoll(&mut self, _: usize) -> Outcome {
        self.step(0)
    }
    fn settle(&mut self) -> Outcome {
        if self.failed && !self.errored {
            self.step(6)?;
        }
        Ok(())
    }
    fn would_proceed(&mut self, _: usize) -> Result<bool, Fail> {
        if self.failed && self.errored {
            // the connection was closed with an error: the application's read must end
            // (a re-poll cannot show it when the stream was detached from the connection)
            self.step(0)?;
            return Ok(true);
        }
        self.step(0)?;
        Ok(self.s[0].pending.is_none())
    }
    fn closed(&self) -> bool {
        self.errored
    }
    fn lost_signature(&self, _: usize) -> String {
        if self.failed && self.errored {
            "stream-reader:sleeps-after-final-size-error-close".into()
        } else if self.errored {
            "stream-reader:sleeps-after-close".into()
        } else {
            "stream-reader:lost-wakeup".into()
        }
    }
    fn describe(&self) -> String {
        format!("chunks {:?}, fin {}, reset {}", self.have, self.fin, self.reset)
    }
}

// ---------------------------------------------------------------------------
// P: stream Writer (poll_write / poll_flush / poll_shutdown) vs window, transmission, ack, STOP_SENDING, close
// ---------------------------------------------------------------------------

struct StreamWriterP {
    streams: Streams,
    flow: ArcSendControler<Sink>,
    sid: StreamId,
    _reader: Reader<Ext<Sink>>,
    writer: Writer<Ext<Sink>>,
    s: [Sleeper; 1],
    cur: usize,
    window: u64,
    frames: Vec<(StreamFrame, bool)>,
    errored: bool,
    stopped: bool,
}

impl Proto for StreamWriterP {
    const NAME: &'static str = "stream-writer";
    const OPS: &'static [OpInfo] = &[
        op("poll_write", Who::W(0), 3),
        op("poll_flush", Who::W(0), 2),
        op("poll_shutdown", Who::W(0), 2),
        op("max_stream_data+4", Who::N(0), 2),
        op("load_into_packet", Who::N(0), 3),
        op("ack_all_sent", Who::N(1), 2),
        op("lose_all_sent", Who::N(1), 1),
        op("stop_sending", Who::N(1), 1),
        op("on_conn_error", Who::N(1), 1),
    ];
    fn new(_: u8) -> Result<Self, Fail> {
        let (streams, sid, reader, writer) = client_with_stream(4)?;
        let flow = ArcSendControler::new(100_000, Sink, ArcSendWakers::new());
        Ok(Self { streams, flow, sid, _reader: reader, writer, s: sleepers(), cur: 0, window: 4, frames: vec![], errored: false, stopped: false })
    }
    fn enabled(&self, o: usize) -> bool {
        match o {
            7 => !self.stopped,
            8 => !self.errored,
            _ => true,
        }
    }
    fn step(&mut self, o: usize) -> Outcome {
        match o {
            0 => {
                self.cur = 0;
                let w = &mut self.writer;
                let _ = self.s[0].poll(|cx| w.poll_write(cx, Bytes::from_static(b"data")));
            }
            1 => {
                self.cur = 1;
                let w = &mut self.writer;
                let _ = self.s[0].poll(|cx| w.poll_flush(cx));
            }
            2 => {
                self.cur = 2;
                let w = &mut self.writer;
                let _ = self.s[0].poll(|cx| w.poll_shutdown(cx));
            }
            3 => {
                self.window += 4;
                self.streams
                    .recv_stream_control(StreamCtlFrame::MaxStreamData(MaxStreamDataFrame::new(self.sid, vi(self.window))))
                    .map_err(|e| harness(format!("MAX_STREAM_DATA rejected: {e:?}")))?;
            }
            4 => {
                let mut pkt = Packet::new(1200);
                let _ = self.streams.try_load_data_into(&mut pkt, &self.flow, false);
                self.frames.extend(pkt.streams.drain(..).map(|f| (f, false)));
            }
            5 => {
                for (f, acked) in self.frames.iter_mut().filter(|(_, a)| !*a) {
                    self.streams.on_data_acked(*f);
                    *acked = true;
                }
            }
            6 => {
                for (f, _) in self.frames.iter().filter(|(_, a)| !*a) {
                    self.streams.may_loss_data(f);
                }
            }
            7 => {
                self.stopped = true;
                self.streams
                    .recv_stream_control(StreamCtlFrame::StopSending(StopSendingFrame::new(self.sid, vi(3))))
                    .map_err(|e| harness(format!("STOP_SENDING rejected: {e:?}")))?;
            }
            _ => {
                self.streams.on_conn_error(&conn_error());
                self.errored = true;
            }
        }
        Ok(())
    }
    fn sleepers(&self) -> &[Sleeper] {
        &self.s
    }
    fn repoll(&mut self, _: usize) -> Outcome {
        self.step(self.cur)
    }
    fn closed(&self) -> bool {
        self.errored || self.stopped
    }
    fn lost_signature(&self, _: usize) -> String {
        let what = ["write", "flush", "shutdown"][self.cur];
        if self.closed() { format!("stream-writer:{what}-sleeps-after-close") } else { format!("stream-writer:{what}-lost-wakeup") }
    }
    fn describe(&self) -> String {
        format!("window {}, frames sent {:?}", self.window, self.frames.iter().map(|(f, a)| (f.range(), f.is_fin(), *a)).collect::<Vec<_>>())
    }
}

// ---------------------------------------------------------------------------
// P: accept_bi / accept_uni vs new peer streams, remote parameters, connection close
// ---------------------------------------------------------------------------

struct AcceptP {
    streams: Streams,
    params: ArcParameters,
    two: bool,
    s: [Sleeper; 3],
    ready: bool,
    nbi: u64,
    nuni: u64,
    err_streams: bool,
    err_params: bool,
    /// registration sits in the listener's single bidi slot
    in_slot: [bool; 2],
    overwritten: [bool; 2],
}

impl Proto for AcceptP {
    const NAME: &'static str = "accept-stream";
    const CFGS: u8 = 2;
    const OPS: &'static [OpInfo] = &[
        op("w0_accept_bi", Who::W(0), 3),
        op("w1_accept_bi", Who::W(1), 2),
        op("w2_accept_uni", Who::W(2), 2),
        op("remote_params_ready", Who::N(0), 1),
        op("peer_opens_bi", Who::N(0), 2),
        op("peer_opens_uni", Who::N(0), 1),
        op("streams_on_conn_error", Who::N(1), 1),
        op("params_on_conn_error", Who::N(1), 1),
    ];
    fn new(cfg: u8) -> Result<Self, Fail> {
        let mut sp = ServerParameters::new();
        set(&mut sp, ParameterId::InitialMaxStreamsBidi, 4)?;
        set(&mut sp, ParameterId::InitialMaxStreamsUni, 4)?;
        set(&mut sp, ParameterId::InitialMaxStreamDataBidiRemote, 100)?;
        set(&mut sp, ParameterId::InitialMaxStreamDataUni, 100)?;
        // a server starts without the client's parameters (DESIGN §8)
        let streams = DataStreams::new(
            Role::Server,
            &sp,
            &ClientParameters::new(),
            Box::new(ConsistentConcurrency::new(4, 4)),
            Sink,
            ArcSendWakers::new(),
            None,
        );
        let params: ArcParameters = Parameters::new_server(sp).into();
        Ok(Self {
            streams,
            params,
            two: cfg == 1,
            s: sleepers(),
            ready: false,
            nbi: 0,
            nuni: 0,
            err_streams: false,
            err_params: false,
            in_slot: [false; 2],
            overwritten: [false; 2],
        })
    }
    fn enabled(&self, o: usize) -> bool {
        match o {
            1 => self.two,
            3 => !self.ready,
            4 => self.nbi < 4,
            5 => self.nuni < 4,
            6 => !self.err_streams,
            // Connection closes the streams first, the parameters last
            7 => self.err_streams && !self.err_params,
            _ => true,
        }
    }
    fn step(&mut self, o: usize) -> Outcome {
        match o {
            0 | 1 => {
                let (st, pa) = (&self.streams, &self.params);
                let r = self.s[o].poll(|cx| Pin::new(&mut st.accept_bi(pa)).poll(cx));
                self.overwritten[o] = false;
                self.in_slot[o] = r.is_pending() && self.ready;
                if self.in_slot[o] && self.in_slot[1 - o] && self.s[1 - o].asleep() {
                    self.overwritten[1 - o] = true;
                }
            }
            2 => {
                let st = &self.streams;
                let _ = self.s[2].poll(|cx| Pin::new(&mut st.accept_uni()).poll(cx));
            }
            3 => {
                self.ready = true;
                if let Ok(mut g) = self.params.lock_guard() {
                    let mut cp = ClientParameters::new();
                    cp.set(ParameterId::InitialSourceConnectionId, cid(2)).unwrap();
                    set(&mut cp, ParameterId::InitialMaxStreamDataBidiLocal, 50)?;
                    g.recv_remote_params(cp).map_err(|e| harness(format!("client parameters rejected: {e:?}")))?;
                    g.initial_scid_from_peer_need_equal(cid(2)).map_err(|e| harness(format!("scid rejected: {e:?}")))?;
                }
            }
            4 | 5 => {
                let sid = if o == 4 {
                    self.nbi += 1;
                    StreamId::new(Role::Client, Dir::Bi, self.nbi - 1)
                } else {
                    self.nuni += 1;
                    StreamId::new(Role::Client, Dir::Uni, self.nuni - 1)
                };
                self.streams
                    .recv_data((StreamFrame::new(sid, 0, 1), Bytes::from_static(b"x")))
                    .map_err(|e| harness(format!("first STREAM frame of {sid} rejected: {e:?}")))?;
            }
            6 => {
                self.streams.on_conn_error(&conn_error());
                self.err_streams = true;
            }
            _ => {
                self.params.on_conn_error(&conn_error());
                self.err_params = true;
            }
        }
        Ok(())
    }
    fn sleepers(&self) -> &[Sleeper] {
        &self.s
    }
    fn repoll(&mut self, w: usize) -> Outcome {
        self.step(w)
    }
    fn settle(&mut self) -> Outcome {
        if self.err_streams && !self.err_params {
            self.step(7)?;
        }
        Ok(())
    }
    fn closed(&self) -> bool {
        self.err_streams
    }
    fn lost_signature(&self, w: usize) -> String {
        if w < 2 && self.overwritten[w] {
            "accept-stream:waker-overwritten-by-second-acceptor".into()
        } else if self.err_streams {
            "accept-stream:sleeps-after-close".into()
        } else {
            "accept-stream:lost-wakeup".into()
        }
    }
}

// ---------------------------------------------------------------------------
// P: open_bi / open_uni vs remote parameters, MAX_STREAMS, connection close
// ---------------------------------------------------------------------------

struct OpenP {
    streams: Streams,
    params: ArcParameters,
    sp: ServerParameters,
    s: [Sleeper; 3],
    ready: bool,
    revised: bool,
    max_bi: u64,
    err_streams: bool,
    err_params: bool,
    /// the waiter's last Pending poll got past the parameters and registered for a stream id
    on_sid: [bool; 3],
}

impl Proto for OpenP {
    const NAME: &'static str = "open-stream";
    const OPS: &'static [OpInfo] = &[
        op("w0_open_bi", Who::W(0), 3),
        op("w1_open_bi", Who::W(1), 2),
        op("w2_open_uni", Who::W(2), 2),
        op("remote_params_ready", Who::N(0), 1),
        op("handshake_done_revise_params", Who::N(0), 1),
        op("max_streams_bi+1", Who::N(0), 2),
        op("streams_on_conn_error", Who::N(1), 1),
        op("params_on_conn_error", Who::N(1), 1),
    ];
    fn new(_: u8) -> Result<Self, Fail> {
        let cp = ClientParameters::new();
        let streams = DataStreams::new(
            Role::Client,
            &cp,
            &ServerParameters::new(),
            Box::new(ConsistentConcurrency::new(4, 4)),
            Sink,
            ArcSendWakers::new(),
            None,
        );
        let params: ArcParameters = Parameters::new_client(cp, None, cid(1)).into();
        let mut sp = good_server_params();
        set(&mut sp, ParameterId::InitialMaxStreamsBidi, 1)?;
        set(&mut sp, ParameterId::InitialMaxStreamsUni, 0)?;
        set(&mut sp, ParameterId::InitialMaxStreamDataBidiRemote, 100)?;
        set(&mut sp, ParameterId::InitialMaxStreamDataUni, 100)?;
        Ok(Self { streams, params, sp, s: sleepers(), ready: false, revised: false, max_bi: 1, err_streams: false, err_params: false, on_sid: [false; 3] })
    }
    fn enabled(&self, o: usize) -> bool {
        match o {
            3 => !self.ready,
            4 => self.ready && !self.revised,
            5 => self.revised,
            6 => !self.err_streams,
            7 => self.err_streams && !self.err_params,
            _ => true,
        }
    }
    fn step(&mut self, o: usize) -> Outcome {
        match o {
            0 | 1 => {
                let (st, pa) = (&self.streams, &self.params);
                let r = self.s[o].poll(|cx| Pin::new(&mut st.open_bi(pa)).poll(cx));
                self.on_sid[o] = r.is_pending() && self.ready && !self.err_params;
            }
            2 => {
                let (st, pa) = (&self.streams, &self.params);
                let r = self.s[2].poll(|cx| Pin::new(&mut st.open_uni(pa)).poll(cx));
                self.on_sid[2] = r.is_pending() && self.ready && !self.err_params;
            }
            3 => {
                self.ready = true;
                if let Ok(mut g) = self.params.lock_guard() {
                    g.recv_remote_params(self.sp.clone()).map_err(|e| harness(format!("server parameters rejected: {e:?}")))?;
                    g.initial_scid_from_peer_need_equal(cid(2)).map_err(|e| harness(format!("scid rejected: {e:?}")))?;
                }
            }
            4 => {
                self.revised = true;
                self.streams.revise_params(false, &self.sp);
            }
            5 => {
                self.max_bi += 1;
                self.streams
                    .recv_stream_control(StreamCtlFrame::MaxStreams(MaxStreamsFrame::with(Dir::Bi, vi(self.max_bi))))
                    .map_err(|e| harness(format!("MAX_STREAMS rejected: {e:?}")))?;
            }
            6 => {
                self.streams.on_conn_error(&conn_error());
                self.err_streams = true;
            }
            _ => {
                self.params.on_conn_error(&conn_error());
                self.err_params = true;
            }
        }
        Ok(())
    }
    fn sleepers(&self) -> &[Sleeper] {
        &self.s
    }
    fn repoll(&mut self, w: usize) -> Outcome {
        self.step(w)
    }
    fn settle(&mut self) -> Outcome {
        if self.err_streams && !self.err_params {
            self.step(7)?;
        }
        Ok(())
    }
    fn closed(&self) -> bool {
        self.err_streams
    }
    fn lost_signature(&self, w: usize) -> String {
        if self.err_streams && self.on_sid[w] {
            "open-stream:sleeps-after-conn-error".into()
        } else if self.err_streams {
            "open-stream:sleeps-after-close".into()
        } else {
            "open-stream:lost-wakeup".into()
        }
    }
    fn describe(&self) -> String {
        format!("params ready {}, revised {}, max_bi {}", self.ready, self.revised, self.max_bi)
    }
}

fn main() {
    let mut check = Check::from_env("C16", "exploration");
    check.rule(
        "case = protocol configuration + schedule (sequence of step ids) over that protocol's waiter steps (poll / re-poll, \
         for split protocols: condition check and registration as separate steps) and notifier steps (set condition, wake, \
         deliver, close/fail); every step is one real lock-protected public operation executed on fresh real objects with \
         counting wakers. exhaustive stages: every schedule up to the stated depth with per-step caps (<=3 polls per waiter, \
         <=3 actions per notifier), shortest first; random stages: schedules of up to 40 (thorough 80) steps. \
         oracle at quiescence: half-done notifiers completed, woken waiters re-polled to a fixpoint, then no waiter is Pending \
         with an un-woken waker while a fresh poll / condition check lets it proceed (after close/fail: must have been woken). \
         non-trivial = a notifier step executed between a waiter's condition check and its registration (only expressible in \
         the split protocols sendwaker, sendwakers, cid-cell, wakers-fanout) or waiter and notifier steps alternating >=3 times. \
         distinct = by hash of the serialised case.",
    );
    check.assume("interleavings at the granularity of whole lock-protected public operations; interleavings inside one lock-free operation are not explored");
    check.assume("single-consumer contracts that the code itself enforces by panicking (AsyncDeque, KeysState, crypto stream reader/writer) are respected: one waiter task with one waker");
    check.assume("AntiAmplifier, RecvBuffer/SendBuffer and Path (qconnection) are not reachable from the component crates and are not exercised");
    check.assume("the external send conditions of the SendWaker burst loop are harness-owned flags; notifiers set the condition first and call wake_by afterwards, as the callers inside qbase/qrecovery do");
    // (depth quick, depth thorough, random quick, random thorough)
    stages::<Deque>(&mut check, 8, 10, 20_000, 2_000_000);
    stages::<Recving>(&mut check, 6, 6, 5_000, 200_000);
    stages::<SendWakerP>(&mut check, 8, 9, 60_000, 4_000_000);
    stages::<SendWakersP>(&mut check, 8, 9, 60_000, 4_000_000);
    stages::<CidCellP>(&mut check, 9, 10, 40_000, 2_000_000);
    stages::<FanOut>(&mut check, 9, 10, 40_000, 2_000_000);
    stages::<ParamsP>(&mut check, 8, 8, 20_000, 2_000_000);
    stages::<LocalSidP>(&mut check, 7, 8, 40_000, 2_000_000);
    stages::<KeysP>(&mut check, 6, 6, 10_000, 500_000);
    stages::<CryptoReaderP>(&mut check, 7, 7, 10_000, 1_000_000);
    stages::<CryptoWriterP>(&mut check, 8, 10, 20_000, 2_000_000);
    stages::<DgramP>(&mut check, 8, 8, 20_000, 2_000_000);
    stages::<StreamReaderP>(&mut check, 8, 9, 40_000, 2_000_000);
    stages::<StreamWriterP>(&mut check, 7, 8, 60_000, 4_000_000);
    stages::<AcceptP>(&mut check, 7, 8, 40_000, 2_000_000);
    stages::<OpenP>(&mut check, 8, 9, 40_000, 2_000_000);
    check.finish();
}
