//! C12 — stream limits, stream direction and final size are enforced.
//!
//! Real `qrecovery::streams::DataStreams` (both roles, both concurrency strategies of
//! `qbase::sid::handy`) is driven with generated peer frames (STREAM, RESET_STREAM,
//! STOP_SENDING, MAX_STREAM_DATA, STREAM_DATA_BLOCKED, MAX_STREAMS, STREAMS_BLOCKED) and
//! local `open_*` / `accept_*` calls polled by hand. A reference stream-id / receive-state
//! model (RFC 9000 §2–4, §19.4–19.14) predicts for every operation whether it must be
//! accepted, must be answered with STREAM_LIMIT / STREAM_STATE / FINAL_SIZE, or may be either.
//! A history ends at the first connection error (the connection is closed there).

use std::{
    collections::{BTreeMap, VecDeque},
    future::Future,
    mem::ManuallyDrop,
    panic::{AssertUnwindSafe, catch_unwind},
    pin::Pin,
    sync::{Arc, Mutex},
    task::{Context, Poll},
};

use bytes::{BufMut, Bytes, buf::UninitSlice};
use proptest::prelude::*;
use qbase::{
    cid::ConnectionId,
    error::{ErrorKind, QuicError},
    flow::ArcSendControler,
    frame::{
        DataBlockedFrame, Frame, MaxStreamDataFrame, MaxStreamsFrame, ResetStreamFrame,
        StopSendingFrame, StreamCtlFrame, StreamDataBlockedFrame, StreamFrame, StreamsBlockedFrame,
        io::SendFrame,
    },
    packet::io::RecordFrame,
    param::{ArcParameters, ClientParameters, ParameterId, Parameters, ServerParameters},
    role::Role,
    sid::{
        ControlStreamsConcurrency, Dir, StreamId,
        handy::{ConsistentConcurrency, DemandConcurrency},
    },
    varint::VarInt,
};
use qrecovery::{
    recv::Reader,
    send::{CancelStream, Writer},
    streams::{DataStreams, Ext},
};
use serde::{Deserialize, Serialize};
use serde_json::json;
use vcore::{CaseCtx, Check, Fail, Outcome, ensure, ensure_eq, fail, gens};

/// largest stream index (2^60 - 1) and largest stream count (2^60)
const MAX_INDEX: u64 = (1 << 60) - 1;
const MAX_COUNT: u64 = 1 << 60;
/// every receive window we advertise; generated offsets stay far below it, so stream flow
/// control (property C11) never interferes
const WINDOW: u32 = 4096;
/// never deliver a frame whose acceptance would create more streams than this at once
const MAX_IMPLICIT: u64 = 300;

/// Known finding (spike-confirmed, enshrined by qbase unit test `test_try_accept_sid`).
const SIG_EQ_MAX: &str = "remote-sid-accept-index-eq-max";
/// RFC 9000 §19.5/§19.8/§19.10: frame for a locally-initiated stream that was never opened.
const SIG_UNOPENED: &str = "local-unopened-stream-frame-accepted";
/// RFC 9000 §19.14: STREAMS_BLOCKED above 2^60 must be STREAM_LIMIT_ERROR or FRAME_ENCODING_ERROR.
const SIG_SB_HUGE: &str = "streams-blocked-gt-2pow60-accepted";
const SIG_SB_PANIC: &str = "streams-blocked-panic";
const SIG_MS_HUGE: &str = "max-streams-gt-2pow60-emitted";
const SIG_STALE_SB: &str = "false-stream-limit-after-stale-streams-blocked";
/// 0-RTT rejected with a smaller stream count than remembered: the excess streams still send.
const SIG_ZERO_RTT: &str = "zero-rtt-rejected-stream-beyond-granted-limit-sent";

// ---------------------------------------------------------------------------
// case
// ---------------------------------------------------------------------------

/// Stream kind relative to the endpoint under test.
#[derive(Debug, Clone, Copy, Serialize, Deserialize, PartialEq, Eq, PartialOrd, Ord)]
enum Kind {
    /// locally initiated, bidirectional
    LBi,
    /// locally initiated, unidirectional (we send only)
    LUni,
    /// peer initiated, bidirectional
    RBi,
    /// peer initiated, unidirectional (we receive only)
    RUni,
}

impl Kind {
    fn remote(self) -> bool {
        matches!(self, Kind::RBi | Kind::RUni)
    }
    fn dir(self) -> Dir {
        match self {
            Kind::LBi | Kind::RBi => Dir::Bi,
            _ => Dir::Uni,
        }
    }
    fn d(self) -> usize {
        self.dir() as usize
    }
    fn name(self) -> &'static str {
        match self {
            Kind::LBi => "local-bidi",
            Kind::LUni => "local-uni",
            Kind::RBi => "remote-bidi",
            Kind::RUni => "remote-uni",
        }
    }
    /// do we have a receiving part on such a stream
    fn receives(self) -> bool {
        self != Kind::LUni
    }
}

/// Stream index, chosen relative to the model state at that moment. "cursor" is the number of
/// streams of the kind in existence, "limit" the advertised count (peer-initiated kinds) or the
/// cursor (locally initiated kinds: first stream that was never opened).
#[derive(Debug, Clone, Serialize, Deserialize, PartialEq)]
enum Ix {
    Existing(u16),
    Next,
    Skip(u8),
    AtLimit(i8),
    Above(u16),
    Abs(u16),
}

/// Placement of a STREAM frame, relative to the stream's final size if known, else to the end of
/// the received data.
#[derive(Debug, Clone, Serialize, Deserialize, PartialEq)]
enum Pos {
    Free { off: u16, len: u16 },
    InOrder { len: u8 },
    EndRel { delta: i8, len: u8 },
    Whole,
}

#[derive(Debug, Clone, Serialize, Deserialize, PartialEq)]
enum Sz {
    Free(u16),
    Rel(i8),
}

#[derive(Debug, Clone, Serialize, Deserialize, PartialEq)]
enum Lim {
    Rel(i8),
    Abs(u16),
    Huge,
}

#[derive(Debug, Clone, Serialize, Deserialize, PartialEq)]
enum Sb {
    /// the limit the peer currently holds
    Current,
    /// a limit the peer held earlier (retransmitted / reordered frame)
    Stale(u16),
    /// more than was ever advertised
    Above(u8),
    /// 0: 2^60, 1: 2^60+1, 2: 2^62-1
    Edge(u8),
}

#[derive(Debug, Clone, Serialize, Deserialize, PartialEq)]
enum Op {
    Open { uni: bool },
    Accept { uni: bool },
    MaxStreams { uni: bool, val: Lim },
    StreamsBlocked { uni: bool, val: Sb },
    Stream { kind: Kind, ix: Ix, pos: Pos, fin: bool },
    Reset { kind: Kind, ix: Ix, size: Sz },
    StopSending { kind: Kind, ix: Ix },
    MaxStreamData { kind: Kind, ix: Ix, val: u16 },
    StreamDataBlocked { kind: Kind, ix: Ix, val: u16 },
    /// acknowledge a RESET_STREAM frame the endpoint emitted
    AckReset { i: u16 },
    /// application cancels one of its writers
    Cancel { w: u16 },
}

#[derive(Debug, Clone, Serialize, Deserialize)]
struct Case {
    server: bool,
    demand: bool,
    /// our initial_max_streams_{bidi,uni}: what the peer may open
    local: [u64; 2],
    /// the peer's initial_max_streams_{bidi,uni}: what we may open
    peer: [u64; 2],
    ops: Vec<Op>,
}

// ---------------------------------------------------------------------------
// rig: the real objects
// ---------------------------------------------------------------------------

#[derive(Clone, Default, Debug)]
struct CtlSink(Arc<Mutex<Vec<StreamCtlFrame>>>);

impl SendFrame<StreamCtlFrame> for CtlSink {
    fn send_frame<I: IntoIterator<Item = StreamCtlFrame>>(&self, iter: I) {
        self.0.lock().unwrap().extend(iter);
    }
}
impl SendFrame<DataBlockedFrame> for CtlSink {
    fn send_frame<I: IntoIterator<Item = DataBlockedFrame>>(&self, _iter: I) {}
}

type Rd = Reader<Ext<CtlSink>>;
type Wr = Writer<Ext<CtlSink>>;

struct Rig {
    role: Role,
    streams: DataStreams<CtlSink>,
    params: ArcParameters,
    sink: CtlSink,
    readers: Vec<Rd>,
    writers: Vec<(StreamId, Wr)>,
}

fn harness(e: impl std::fmt::Debug) -> Fail {
    Fail::new("harness", format!("{e:?}"))
}

fn vi(v: u64) -> VarInt {
    VarInt::from_u64(v).expect("harness: varint range")
}

fn set_common<R: qbase::role::IntoRole + Default>(
    p: &mut qbase::param::core::Parameters<R>,
    max_bi: u64,
    max_uni: u64,
) -> Result<(), Fail> {
    p.set(ParameterId::InitialMaxStreamsBidi, vi(max_bi)).map_err(harness)?;
    p.set(ParameterId::InitialMaxStreamsUni, vi(max_uni)).map_err(harness)?;
    p.set(ParameterId::InitialMaxStreamDataBidiLocal, WINDOW).map_err(harness)?;
    p.set(ParameterId::InitialMaxStreamDataBidiRemote, WINDOW).map_err(harness)?;
    p.set(ParameterId::InitialMaxStreamDataUni, WINDOW).map_err(harness)?;
    p.set(ParameterId::InitialMaxData, 1u32 << 24).map_err(harness)?;
    Ok(())
}

fn strategy(demand: bool, local: [u64; 2]) -> Box<dyn ControlStreamsConcurrency> {
    // exactly what ConnectionFoundation::with_streams_concurrency_strategy does
    if demand {
        Box::new(DemandConcurrency)
    } else {
        Box::new(ConsistentConcurrency::new(local[0], local[1]))
    }
}

impl Rig {
    /// The endpoint after its handshake completed without 0-RTT: DataStreams is built with empty
    /// remote parameters and receives the real ones through `revise_params(false, ..)`, like
    /// `qconnection::builder` does.
    fn new(case: &Case) -> Result<Self, Fail> {
        let peer_cid = ConnectionId::from_slice(&[9, 8, 7, 6, 5, 4, 3, 2]);
        let odcid = ConnectionId::from_slice(&[1, 2, 3, 4, 5, 6, 7, 8]);
        let sink = CtlSink::default();
        let (role, streams, params) = if case.server {
            let mut local = ServerParameters::new();
            set_common(&mut local, case.local[0], case.local[1])?;
            let mut remote = ClientParameters::new();
            set_common(&mut remote, case.peer[0], case.peer[1])?;
            remote.set(ParameterId::InitialSourceConnectionId, peer_cid).map_err(harness)?;
            let streams = DataStreams::new(
                Role::Server,
                &local,
                &ClientParameters::default(),
                strategy(case.demand, case.local),
                sink.clone(),
                Default::default(),
                None,
            );
            streams.revise_params(false, &remote);
            let mut p = Parameters::new_server(local);
            p.initial_scid_from_peer_need_equal(peer_cid).map_err(harness)?;
            p.recv_remote_params(remote).map_err(harness)?;
            (Role::Server, streams, ArcParameters::from(p))
        } else {
            let mut local = ClientParameters::new();
            set_common(&mut local, case.local[0], case.local[1])?;
            let mut remote = ServerParameters::new();
            set_common(&mut remote, case.peer[0], case.peer[1])?;
            remote.set(ParameterId::InitialSourceConnectionId, peer_cid).map_err(harness)?;
            remote.set(ParameterId::OriginalDestinationConnectionId, odcid).map_err(harness)?;
            let streams = DataStreams::new(
                Role::Client,
                &local,
                &ServerParameters::default(),
                strategy(case.demand, case.local),
                sink.clone(),
                Default::default(),
                None,
            );
            streams.revise_params(false, &remote);
            let mut p = Parameters::new_client(local, None, odcid);
            p.initial_scid_from_peer_need_equal(peer_cid).map_err(harness)?;
            p.recv_remote_params(remote).map_err(harness)?;
            (Role::Client, streams, ArcParameters::from(p))
        };
        ensure!(
            params.lock_guard().map_err(harness)?.is_remote_params_ready(),
            "harness",
            "transport parameters not ready"
        );
        Ok(Self { role, streams, params, sink, readers: vec![], writers: vec![] })
    }

    fn sid(&self, kind: Kind, idx: u64) -> StreamId {
        let role = if kind.remote() { !self.role } else { self.role };
        StreamId::new(role, kind.dir(), idx)
    }
}

fn noop_cx<R>(f: impl FnOnce(&mut Context<'_>) -> R) -> R {
    let waker = futures::task::noop_waker();
    let mut cx = Context::from_waker(&waker);
    f(&mut cx)
}

// ---------------------------------------------------------------------------
// reference model
// ---------------------------------------------------------------------------

#[derive(Debug, Clone, Copy, PartialEq)]
enum RS {
    Recv,
    SizeKnown,
    /// all data received or reset: the implementation has dropped the receiving part
    Closed,
}

#[derive(Debug)]
struct RStream {
    state: RS,
    /// end of the highest non-empty data received
    largest_data: u64,
    /// same, also counting empty STREAM frames (RFC 9000 does not say whether an empty frame
    /// at offset X proves the stream is at least X long: both readings are accepted)
    largest_any: u64,
    cov: Vec<bool>,
    fin: Option<u64>,
}

impl RStream {
    fn new() -> Self {
        Self { state: RS::Recv, largest_data: 0, largest_any: 0, cov: vec![], fin: None }
    }
    fn prefix(&self) -> u64 {
        self.cov.iter().take_while(|c| **c).count() as u64
    }
    fn mark(&mut self, off: u64, len: u64) {
        let end = (off + len) as usize;
        if self.cov.len() < end {
            self.cov.resize(end, false);
        }
        for c in &mut self.cov[off as usize..end] {
            *c = true;
        }
        if len > 0 {
            self.largest_data = self.largest_data.max(off + len);
        }
        self.largest_any = self.largest_any.max(off + len);
    }
    /// reference point for relative placements
    fn reference(&self) -> u64 {
        self.fin.unwrap_or(self.largest_data)
    }
}

enum Verdict {
    MustOk,
    /// must be answered with one of the kinds; `sig` names the rule when it was not
    MustErr(Vec<ErrorKind>, String),
    /// the RFC allows both
    Either(Vec<ErrorKind>),
}

#[derive(Default)]
struct Stats {
    executed: usize,
    implicit_multi: bool,
    implicit_max: u64,
    at_limit: [bool; 3],
    ended: Option<String>,
    open_ready: u32,
    open_blocked: u32,
    unblocked_by_max_streams: bool,
    accepted: u32,
    accept_pending: u32,
    closed_streams: u32,
    closed_frames: u32,
    max_streams_emitted: u32,
    final_size_checks: u32,
    either: u32,
}

struct Model {
    opened: [u64; 2],
    peer_max: [u64; 2],
    open_was_blocked: [bool; 2],
    cursor: [u64; 2],
    advertised: [u64; 2],
    imax: [u64; 2],
    adv_hist: [Vec<u64>; 2],
    accept_q: [VecDeque<u64>; 2],
    rstreams: BTreeMap<(Kind, u64), RStream>,
    resets: Vec<ResetStreamFrame>,
    st: Stats,
}

enum Flow {
    Continue,
    End,
}

fn kind_of_err(r: &Result<usize, QuicError>) -> Option<ErrorKind> {
    r.as_ref().err().map(|e| e.kind())
}

/// Compare the implementation's answer with the verdict. Ok(true) = frame was accepted.
fn judge(v: &Verdict, got: &Result<usize, QuicError>, what: &str) -> Result<bool, Fail> {
    match (v, got) {
        (Verdict::MustOk, Ok(_)) => Ok(true),
        (Verdict::MustOk, Err(e)) => Err(Fail::new(
            format!("unexpected-error:{:?}", e.kind()),
            format!("{what}: must be accepted, answered with {e:?}"),
        )),
        (Verdict::MustErr(kinds, _), Err(e)) | (Verdict::Either(kinds), Err(e)) => {
            if kinds.contains(&e.kind()) {
                Ok(false)
            } else {
                Err(Fail::new(
                    format!("wrong-error-kind:{:?}", e.kind()),
                    format!("{what}: expected one of {kinds:?}, answered with {e:?}"),
                ))
            }
        }
        (Verdict::MustErr(kinds, sig), Ok(_)) => {
            Err(Fail::new(sig.clone(), format!("{what}: accepted, must be answered with {kinds:?}")))
        }
        (Verdict::Either(_), Ok(_)) => Ok(true),
    }
}

#[derive(Debug, Clone, Copy, PartialEq)]
enum FK {
    Stream,
    Reset,
    StopSending,
    MaxStreamData,
    StreamDataBlocked,
}

impl FK {
    fn name(self) -> &'static str {
        match self {
            FK::Stream => "STREAM",
            FK::Reset => "RESET_STREAM",
            FK::StopSending => "STOP_SENDING",
            FK::MaxStreamData => "MAX_STREAM_DATA",
            FK::StreamDataBlocked => "STREAM_DATA_BLOCKED",
        }
    }
    /// frames only the sending side of a stream may emit
    fn from_sender(self) -> bool {
        matches!(self, FK::Stream | FK::Reset | FK::StreamDataBlocked)
    }
}

impl Model {
    fn new(case: &Case) -> Self {
        Self {
            opened: [0, 0],
            peer_max: case.peer,
            open_was_blocked: [false, false],
            cursor: [0, 0],
            advertised: case.local,
            imax: case.local,
            adv_hist: [vec![case.local[0]], vec![case.local[1]]],
            accept_q: [VecDeque::new(), VecDeque::new()],
            rstreams: BTreeMap::new(),
            resets: vec![],
            st: Stats::default(),
        }
    }

    fn resolve_ix(&self, kind: Kind, ix: &Ix) -> u64 {
        let d = kind.d();
        let (cursor, limit) = if kind.remote() {
            (self.cursor[d], self.advertised[d])
        } else {
            (self.opened[d], self.opened[d])
        };
        let raw = match ix {
            Ix::Existing(i) => {
                if cursor == 0 {
                    0
                } else {
                    gens::idx(*i, cursor.min(60_000) as usize) as u64
                }
            }
            Ix::Next => cursor,
            Ix::Skip(g) => cursor + *g as u64,
            Ix::AtLimit(dl) => limit.saturating_add_signed(*dl as i64),
            Ix::Above(n) => limit.saturating_add(2 + *n as u64),
            Ix::Abs(a) => *a as u64,
        };
        let capped = raw.min(MAX_INDEX);
        if kind.remote() { capped.min(cursor + MAX_IMPLICIT) } else { capped }
    }

    /// Drain what the endpoint emitted during the last operation.
    fn absorb_emitted(&mut self, rig: &Rig, step: usize, blocked_dir: Option<usize>) -> Outcome {
        let frames: Vec<StreamCtlFrame> = std::mem::take(&mut *rig.sink.0.lock().unwrap());
        for f in frames {
            match f {
                StreamCtlFrame::MaxStreams(ms) => {
                    let (d, v) = match ms {
                        MaxStreamsFrame::Bi(v) => (0, v.into_u64()),
                        MaxStreamsFrame::Uni(v) => (1, v.into_u64()),
                    };
                    ensure!(
                        v <= MAX_COUNT,
                        SIG_MS_HUGE,
                        "step {step}: endpoint emitted MAX_STREAMS({v}) which no peer can parse (> 2^60)"
                    );
                    self.st.max_streams_emitted += 1;
                    self.imax[d] = v;
                    self.advertised[d] = self.advertised[d].max(v);
                    self.adv_hist[d].push(v);
                }
                StreamCtlFrame::StreamsBlocked(sb) => {
                    let (d, v) = match sb {
                        StreamsBlockedFrame::Bi(v) => (0, v.into_u64()),
                        StreamsBlockedFrame::Uni(v) => (1, v.into_u64()),
                    };
                    ensure!(
                        blocked_dir == Some(d) && v == self.peer_max[d],
                        "streams-blocked-wrong-value",
                        "step {step}: STREAMS_BLOCKED(dir {d}, {v}) emitted; peer's limit is {:?}, blocked open in dir {blocked_dir:?}",
                        self.peer_max
                    );
                }
                StreamCtlFrame::ResetStream(r) => self.resets.push(r),
                _ => {}
            }
        }
        Ok(())
    }

    fn implicit_open(&mut self, kind: Kind, idx: u64) {
        let d = kind.d();
        if idx < self.cursor[d] {
            return;
        }
        let n = idx - self.cursor[d] + 1;
        if n >= 2 {
            self.st.implicit_multi = true;
        }
        self.st.implicit_max = self.st.implicit_max.max(n);
        for i in self.cursor[d]..=idx {
            self.rstreams.insert((kind, i), RStream::new());
            self.accept_q[d].push_back(i);
        }
        self.cursor[d] = idx + 1;
    }

    /// Verdict of the receive state machine for a STREAM frame; `apply` performs the effects.
    fn stream_verdict(&self, s: &RStream, off: u64, len: u64, fin: bool) -> Verdict {
        let end = off + len;
        let fs = |rule: &str| format!("final-size-not-enforced:{rule}");
        match s.state {
            RS::Recv => {
                if !fin {
                    Verdict::MustOk
                } else if end < s.largest_data {
                    Verdict::MustErr(vec![ErrorKind::FinalSize], fs("fin-below-received-data"))
                } else if end < s.largest_any {
                    Verdict::Either(vec![ErrorKind::FinalSize])
                } else {
                    Verdict::MustOk
                }
            }
            RS::SizeKnown => {
                let f = s.fin.unwrap();
                if end > f {
                    Verdict::MustErr(vec![ErrorKind::FinalSize], fs("data-beyond-final-size"))
                } else if fin && end != f {
                    Verdict::MustErr(vec![ErrorKind::FinalSize], fs("fin-changes-final-size"))
                } else {
                    Verdict::MustOk
                }
            }
            RS::Closed => {
                let f = s.fin.unwrap();
                if end > f || (fin && end != f) {
                    // RFC 9000 §4.5: SHOULD ... even after a stream is closed
                    Verdict::Either(vec![ErrorKind::FinalSize])
                } else {
                    Verdict::MustOk
                }
            }
        }
    }

    fn reset_verdict(&self, s: &RStream, size: u64) -> Verdict {
        let fs = |rule: &str| format!("final-size-not-enforced:{rule}");
        match s.state {
            RS::Recv => {
                if size < s.largest_data {
                    Verdict::MustErr(vec![ErrorKind::FinalSize], fs("reset-below-received-data"))
                } else if size < s.largest_any {
                    Verdict::Either(vec![ErrorKind::FinalSize])
                } else {
                    Verdict::MustOk
                }
            }
            RS::SizeKnown => {
                if size != s.fin.unwrap() {
                    Verdict::MustErr(vec![ErrorKind::FinalSize], fs("reset-changes-final-size"))
                } else {
                    Verdict::MustOk
                }
            }
            RS::Closed => {
                if size != s.fin.unwrap() {
                    Verdict::Either(vec![ErrorKind::FinalSize])
                } else {
                    Verdict::MustOk
                }
            }
        }
    }
}

/// What a stream-addressed peer frame carries besides the stream.
enum Body {
    Stream { off: u64, len: u64, fin: bool },
    Reset { size: u64 },
    Val(u64),
}

fn deliver(rig: &Rig, fk: FK, sid: StreamId, body: &Body, poisoned: &mut bool) -> Result<Result<usize, QuicError>, Fail> {
    let r = catch_unwind(AssertUnwindSafe(|| match (fk, body) {
        (FK::Stream, Body::Stream { off, len, fin }) => {
            let mut f = StreamFrame::new(sid, *off, *len as usize);
            f.set_eos_flag(*fin);
            let data = Bytes::from(gens::content(u64::from(sid), *off, *len as usize));
            rig.streams.recv_data((f, data))
        }
        (FK::Reset, Body::Reset { size }) => rig
            .streams
            .recv_stream_control(StreamCtlFrame::ResetStream(ResetStreamFrame::new(sid, vi(5), vi(*size)))),
        (FK::StopSending, _) => rig
            .streams
            .recv_stream_control(StreamCtlFrame::StopSending(StopSendingFrame::new(sid, vi(6)))),
        (FK::MaxStreamData, Body::Val(v)) => rig
            .streams
            .recv_stream_control(StreamCtlFrame::MaxStreamData(MaxStreamDataFrame::new(sid, vi(*v)))),
        (FK::StreamDataBlocked, Body::Val(v)) => rig.streams.recv_stream_control(
            StreamCtlFrame::StreamDataBlocked(StreamDataBlockedFrame::new(sid, vi(*v))),
        ),
        _ => unreachable!("harness: frame/body mismatch"),
    }));
    match r {
        Ok(r) => Ok(r),
        Err(_) => {
            *poisoned = true;
            let p = vcore::take_thread_panics();
            let (loc, msg) = p.last().cloned().unwrap_or_default();
            Err(Fail::new(
                format!("panic:recv:{}", fk.name()),
                format!("receiving {} for {sid} panicked at {loc}: {msg}", fk.name()),
            ))
        }
    }
}

impl Model {
    /// One stream-addressed peer frame: deliver, compare with the model, update the model.
    fn peer_frame(
        &mut self,
        rig: &Rig,
        ctx: &mut CaseCtx,
        step: usize,
        fk: FK,
        kind: Kind,
        idx: u64,
        body: Body,
        poisoned: &mut bool,
    ) -> Result<Flow, Fail> {
        let d = kind.d();
        let sid = rig.sid(kind, idx);
        let adv = self.advertised[d];
        let imax = self.imax[d];
        let what = match &body {
            Body::Stream { off, len, fin } => format!(
                "step {step}: {} [{off}, {}){} on {} #{idx} ({sid})",
                fk.name(),
                off + len,
                if *fin { " FIN" } else { "" },
                kind.name()
            ),
            Body::Reset { size } => {
                format!("step {step}: {} final size {size} on {} #{idx} ({sid})", fk.name(), kind.name())
            }
            Body::Val(v) => format!("step {step}: {}({v}) on {} #{idx} ({sid})", fk.name(), kind.name()),
        };
        if kind.remote() {
            if idx + 1 == adv {
                self.st.at_limit[0] = true;
            } else if idx == adv {
                self.st.at_limit[1] = true;
            } else if idx == adv + 1 {
                self.st.at_limit[2] = true;
            }
        }
        let got = deliver(rig, fk, sid, &body, poisoned)?;
        let end = |m: &mut Model, why: String| {
            m.st.ended = Some(why);
            Ok(Flow::End)
        };

        // ---- A. direction (RFC 9000 §19.4, 19.5, 19.8, 19.10, 19.13)
        let wrong_dir = if fk.from_sender() { kind == Kind::LUni } else { kind == Kind::RUni };
        if wrong_dir {
            let mut kinds = vec![ErrorKind::StreamState];
            if kind.remote() && idx >= adv {
                kinds.push(ErrorKind::StreamLimit);
            }
            let v = Verdict::MustErr(kinds, format!("direction-not-enforced:{}:{}", fk.name(), kind.name()));
            judge(&v, &got, &what)?;
            return end(self, format!("stream-state:{}", kind.name()));
        }

        // ---- B. does the stream exist / may it exist
        if kind.remote() {
            let limit_err = kind_of_err(&got) == Some(ErrorKind::StreamLimit);
            if idx >= adv {
                if limit_err {
                    return end(self, "stream-limit".into());
                }
                if idx == imax {
                    // known finding: `sid.id() > max` instead of `>=`; the stream now exists
                    ctx.known.push(Fail::new(
                        SIG_EQ_MAX,
                        format!("{what}: accepted although only {adv} streams (indices < {adv}) were advertised"),
                    ));
                } else if let Err(e) = &got {
                    return Err(Fail::new(
                        format!("wrong-error-kind:{:?}", e.kind()),
                        format!("{what}: expected STREAM_LIMIT_ERROR (advertised count {adv}), answered with {e:?}"),
                    ));
                } else {
                    return Err(Fail::new(
                        "stream-limit-not-enforced",
                        format!("{what}: accepted, must be answered with STREAM_LIMIT_ERROR; advertised count {adv}"),
                    ));
                }
            } else if limit_err {
                if imax < adv && idx > imax {
                    return Err(Fail::new(
                        SIG_STALE_SB,
                        format!(
                            "{what}: STREAM_LIMIT_ERROR although MAX_STREAMS {adv} was advertised; a stale STREAMS_BLOCKED lowered the internal limit to {imax} (advertised values so far: {:?})",
                            self.adv_hist[d]
                        ),
                    ));
                }
                return Err(Fail::new(
                    "false-stream-limit",
                    format!("{what}: STREAM_LIMIT_ERROR although MAX_STREAMS {adv} was advertised ({got:?})"),
                ));
            }
            self.implicit_open(kind, idx);
        } else if idx >= self.opened[d] {
            // locally initiated stream that was never opened
            let must = matches!(fk, FK::Stream | FK::StopSending | FK::MaxStreamData);
            return match (&got, must) {
                (Err(e), _) if e.kind() == ErrorKind::StreamState => end(self, "stream-state:unopened".into()),
                (Err(e), _) => Err(Fail::new(
                    format!("wrong-error-kind:{:?}", e.kind()),
                    format!("{what}: stream never opened (we opened {}), answered with {e:?}", self.opened[d]),
                )),
                (Ok(_), true) => {
                    // the frame has no stream to act on: nothing changes, keep going
                    ctx.known.push(Fail::new(
                        format!("{SIG_UNOPENED}:{}", fk.name()),
                        format!(
                            "{what}: accepted although we opened only {} such streams (RFC 9000: MUST be STREAM_STATE_ERROR)",
                            self.opened[d]
                        ),
                    ));
                    Ok(Flow::Continue)
                }
                (Ok(_), false) => Ok(Flow::Continue),
            };
        }

        // ---- C. the frame itself
        match body {
            Body::Stream { off, len, fin } if kind.receives() => {
                let s = self.rstreams.get(&(kind, idx)).ok_or_else(|| harness("model: missing stream"))?;
                let v = self.stream_verdict(s, off, len, fin);
                if !matches!(v, Verdict::MustOk) {
                    self.st.final_size_checks += 1;
                }
                if matches!(v, Verdict::Either(_)) {
                    self.st.either += 1;
                }
                if s.state == RS::Closed {
                    self.st.closed_frames += 1;
                }
                if !judge(&v, &got, &what)? {
                    return end(self, "final-size:stream".into());
                }
                let s = self.rstreams.get_mut(&(kind, idx)).unwrap();
                if s.state != RS::Closed {
                    s.mark(off, len);
                    if fin && s.state == RS::Recv {
                        s.state = RS::SizeKnown;
                        s.fin = Some(off + len);
                    }
                    if s.state == RS::SizeKnown && s.prefix() == s.fin.unwrap() {
                        s.state = RS::Closed;
                        self.st.closed_streams += 1;
                    }
                }
            }
            Body::Reset { size } if kind.receives() => {
                let s = self.rstreams.get(&(kind, idx)).ok_or_else(|| harness("model: missing stream"))?;
                let v = self.reset_verdict(s, size);
                if !matches!(v, Verdict::MustOk) {
                    self.st.final_size_checks += 1;
                }
                if matches!(v, Verdict::Either(_)) {
                    self.st.either += 1;
                }
                if s.state == RS::Closed {
                    self.st.closed_frames += 1;
                }
                if !judge(&v, &got, &what)? {
                    return end(self, "final-size:reset".into());
                }
                let s = self.rstreams.get_mut(&(kind, idx)).unwrap();
                if s.state != RS::Closed {
                    s.state = RS::Closed;
                    s.fin = Some(size);
                    self.st.closed_streams += 1;
                }
            }
            _ => {
                judge(&Verdict::MustOk, &got, &what)?;
            }
        }
        Ok(Flow::Continue)
    }
}

// ---------------------------------------------------------------------------
// interpreter
// ---------------------------------------------------------------------------

fn poll_accept(rig: &mut Rig, d: usize) -> Poll<Result<StreamId, qbase::error::Error>> {
    if d == 0 {
        let r = noop_cx(|cx| {
            let mut fut = rig.streams.accept_bi(&rig.params);
            Pin::new(&mut fut).poll(cx)
        });
        match r {
            Poll::Ready(Ok((sid, (rd, wr)))) => {
                rig.readers.push(rd);
                rig.writers.push((sid, wr));
                Poll::Ready(Ok(sid))
            }
            Poll::Ready(Err(e)) => Poll::Ready(Err(e)),
            Poll::Pending => Poll::Pending,
        }
    } else {
        let r = noop_cx(|cx| {
            let mut fut = rig.streams.accept_uni();
            Pin::new(&mut fut).poll(cx)
        });
        match r {
            Poll::Ready(Ok((sid, rd))) => {
                rig.readers.push(rd);
                Poll::Ready(Ok(sid))
            }
            Poll::Ready(Err(e)) => Poll::Ready(Err(e)),
            Poll::Pending => Poll::Pending,
        }
    }
}

fn check_accept(m: &mut Model, rig: &mut Rig, d: usize, step: usize) -> Outcome {
    let step = if step == usize::MAX { "final drain".to_string() } else { step.to_string() };
    let kind = if d == 0 { Kind::RBi } else { Kind::RUni };
    let want = m.accept_q[d].front().copied();
    match (poll_accept(rig, d), want) {
        (Poll::Ready(Ok(sid)), Some(i)) => {
            ensure_eq!(
                sid,
                rig.sid(kind, i),
                "accept-wrong-stream",
                "step {step}: accept (dir {d}) yielded {sid}, next not yet offered peer stream is #{i}"
            );
            m.accept_q[d].pop_front();
            m.st.accepted += 1;
        }
        (Poll::Ready(Ok(sid)), None) => fail!(
            "accept-extra-stream",
            "step {step}: accept (dir {d}) yielded {sid} although every peer stream in use ({} so far) was already offered",
            m.cursor[d]
        ),
        (Poll::Ready(Err(e)), _) => fail!("accept-error", "step {step}: accept (dir {d}) failed: {e:?}"),
        (Poll::Pending, Some(i)) => fail!(
            "accept-missing-stream",
            "step {step}: accept (dir {d}) is pending although peer stream #{i} was opened (implicitly or explicitly) and never offered"
        ),
        (Poll::Pending, None) => m.st.accept_pending += 1,
    }
    Ok(())
}

fn apply_op(
    m: &mut Model,
    rig: &mut Rig,
    ctx: &mut CaseCtx,
    step: usize,
    op: &Op,
    poisoned: &mut bool,
) -> Result<Flow, Fail> {
    let mut blocked_dir = None;
    let flow = match op {
        Op::Open { uni } => {
            let d = *uni as usize;
            let dir = if *uni { Dir::Uni } else { Dir::Bi };
            let r: Poll<Result<Option<StreamId>, qbase::error::Error>> = if *uni {
                let r = noop_cx(|cx| {
                    let mut fut = rig.streams.open_uni(&rig.params);
                    Pin::new(&mut fut).poll(cx)
                });
                match r {
                    Poll::Ready(Ok(Some((sid, wr)))) => {
                        rig.writers.push((sid, wr));
                        Poll::Ready(Ok(Some(sid)))
                    }
                    Poll::Ready(Ok(None)) => Poll::Ready(Ok(None)),
                    Poll::Ready(Err(e)) => Poll::Ready(Err(e)),
                    Poll::Pending => Poll::Pending,
                }
            } else {
                let r = noop_cx(|cx| {
                    let mut fut = rig.streams.open_bi(&rig.params);
                    Pin::new(&mut fut).poll(cx)
                });
                match r {
                    Poll::Ready(Ok(Some((sid, (rd, wr))))) => {
                        rig.readers.push(rd);
                        rig.writers.push((sid, wr));
                        Poll::Ready(Ok(Some(sid)))
                    }
                    Poll::Ready(Ok(None)) => Poll::Ready(Ok(None)),
                    Poll::Ready(Err(e)) => Poll::Ready(Err(e)),
                    Poll::Pending => Poll::Pending,
                }
            };
            let allowed = m.opened[d] < m.peer_max[d];
            match r {
                Poll::Ready(Ok(Some(sid))) => {
                    ensure!(
                        allowed,
                        "open-beyond-peer-limit",
                        "step {step}: open ({dir}) returned {sid}: we already opened {} and the peer allows {}",
                        m.opened[d],
                        m.peer_max[d]
                    );
                    ensure_eq!(
                        sid,
                        StreamId::new(rig.role, dir, m.opened[d]),
                        "open-wrong-stream-id",
                        "step {step}: open ({dir}) #{}",
                        m.opened[d]
                    );
                    if !uni {
                        m.rstreams.insert((Kind::LBi, m.opened[d]), RStream::new());
                    }
                    m.opened[d] += 1;
                    m.st.open_ready += 1;
                    if m.open_was_blocked[d] {
                        m.st.unblocked_by_max_streams = true;
                    }
                }
                Poll::Ready(Ok(None)) => fail!("open-exhausted", "step {step}: open ({dir}) reports exhausted stream ids"),
                Poll::Ready(Err(e)) => fail!("open-error", "step {step}: open ({dir}) failed: {e:?}"),
                Poll::Pending => {
                    ensure!(
                        !allowed,
                        "open-blocked-below-limit",
                        "step {step}: open ({dir}) is pending although we opened {} and the peer allows {}",
                        m.opened[d],
                        m.peer_max[d]
                    );
                    m.st.open_blocked += 1;
                    m.open_was_blocked[d] = true;
                    blocked_dir = Some(d);
                }
            }
            Flow::Continue
        }
        Op::Accept { uni } => {
            check_accept(m, rig, *uni as usize, step)?;
            Flow::Continue
        }
        Op::MaxStreams { uni, val } => {
            let d = *uni as usize;
            let v = match val {
                Lim::Rel(dl) => m.peer_max[d].saturating_add_signed(*dl as i64).min(MAX_COUNT),
                Lim::Abs(a) => *a as u64,
                Lim::Huge => MAX_COUNT,
            };
            let dir = if *uni { Dir::Uni } else { Dir::Bi };
            let r = rig.streams.recv_stream_control(StreamCtlFrame::MaxStreams(MaxStreamsFrame::with(dir, vi(v))));
            judge(&Verdict::MustOk, &r, &format!("step {step}: MAX_STREAMS({dir}, {v})"))?;
            m.peer_max[d] = m.peer_max[d].max(v);
            Flow::Continue
        }
        Op::StreamsBlocked { uni, val } => {
            let d = *uni as usize;
            let dir = if *uni { Dir::Uni } else { Dir::Bi };
            let v = match val {
                Sb::Current => m.advertised[d],
                Sb::Stale(i) => m.adv_hist[d][gens::idx(*i, m.adv_hist[d].len())],
                Sb::Above(n) => (m.advertised[d] + 1 + *n as u64).min(MAX_COUNT),
                Sb::Edge(0) => MAX_COUNT,
                Sb::Edge(1) => MAX_COUNT + 1,
                Sb::Edge(_) => gens::VARINT_MAX,
            };
            let what = format!("step {step}: STREAMS_BLOCKED({dir}, {v})");
            if v > MAX_COUNT {
                // such a frame never reaches the handler: the frame decoder must refuse it
                // (RFC 9000 §19.14: STREAM_LIMIT_ERROR or FRAME_ENCODING_ERROR)
                use qbase::frame::io::WriteFrame;
                let mut wire = bytes::BytesMut::new();
                wire.put_frame(&StreamsBlockedFrame::with(dir, vi(v)));
                let decoded = qbase::frame::FrameReader::new(wire.freeze(), qbase::packet::r#type::Type::Short(qbase::packet::r#type::short::OneRtt(false.into()))).next();
                let rejected = matches!(&decoded, Some(Err(e)) if matches!(QuicError::from(e.clone()).kind(), ErrorKind::FrameEncoding | ErrorKind::StreamLimit));
                if !rejected {
                    return Err(Fail::new(SIG_SB_HUGE, format!("{what}: the decoder yields {decoded:?}, must be a FRAME_ENCODING / STREAM_LIMIT error")));
                }
                m.st.ended = Some("streams-blocked-too-large".into());
                return Ok(Flow::End);
            }
            let r = catch_unwind(AssertUnwindSafe(|| {
                rig.streams
                    .recv_stream_control(StreamCtlFrame::StreamsBlocked(StreamsBlockedFrame::with(dir, vi(v))))
            }));
            let r = match r {
                Ok(r) => r,
                Err(_) => {
                    *poisoned = true;
                    let p = vcore::take_thread_panics();
                    let (loc, msg) = p.last().cloned().unwrap_or_default();
                    return Err(Fail::new(SIG_SB_PANIC, format!("{what} panicked at {loc}: {msg}")));
                }
            };
            if v > MAX_COUNT {
                let verdict = Verdict::MustErr(
                    vec![ErrorKind::StreamLimit, ErrorKind::FrameEncoding],
                    SIG_SB_HUGE.to_string(),
                );
                judge(&verdict, &r, &what)?;
                m.st.ended = Some("streams-blocked-too-large".into());
                Flow::End
            } else {
                judge(&Verdict::MustOk, &r, &what)?;
                Flow::Continue
            }
        }
        Op::Stream { kind, ix, pos, fin } => {
            let idx = m.resolve_ix(*kind, ix);
            let (reference, prefix) = match m.rstreams.get(&(*kind, idx)) {
                Some(s) => (s.reference(), s.prefix()),
                None => (0, 0),
            };
            let (off, len) = match pos {
                Pos::Free { off, len } => (*off as u64, *len as u64),
                Pos::InOrder { len } => (prefix, *len as u64),
                Pos::EndRel { delta, len } => {
                    let end = reference.saturating_add_signed(*delta as i64);
                    let len = (*len as u64).min(end);
                    (end - len, len)
                }
                Pos::Whole => (0, reference),
            };
            m.peer_frame(rig, ctx, step, FK::Stream, *kind, idx, Body::Stream { off, len, fin: *fin }, poisoned)?
        }
        Op::Reset { kind, ix, size } => {
            let idx = m.resolve_ix(*kind, ix);
            let reference = m.rstreams.get(&(*kind, idx)).map(|s| s.reference()).unwrap_or(0);
            let size = match size {
                Sz::Free(v) => *v as u64,
                Sz::Rel(dl) => reference.saturating_add_signed(*dl as i64),
            };
            m.peer_frame(rig, ctx, step, FK::Reset, *kind, idx, Body::Reset { size }, poisoned)?
        }
        Op::StopSending { kind, ix } => {
            let idx = m.resolve_ix(*kind, ix);
            m.peer_frame(rig, ctx, step, FK::StopSending, *kind, idx, Body::Val(0), poisoned)?
        }
        Op::MaxStreamData { kind, ix, val } => {
            let idx = m.resolve_ix(*kind, ix);
            m.peer_frame(rig, ctx, step, FK::MaxStreamData, *kind, idx, Body::Val(*val as u64), poisoned)?
        }
        Op::StreamDataBlocked { kind, ix, val } => {
            let idx = m.resolve_ix(*kind, ix);
            m.peer_frame(rig, ctx, step, FK::StreamDataBlocked, *kind, idx, Body::Val(*val as u64), poisoned)?
        }
        Op::AckReset { i } => {
            if !m.resets.is_empty() {
                let f = m.resets[gens::idx(*i, m.resets.len())];
                rig.streams.on_reset_acked(f);
            }
            Flow::Continue
        }
        Op::Cancel { w } => {
            if !rig.writers.is_empty() {
                let k = gens::idx(*w, rig.writers.len());
                rig.writers[k].1.cancel(7);
            }
            Flow::Continue
        }
    };
    m.absorb_emitted(rig, step, blocked_dir)?;
    Ok(flow)
}

fn history(case: &Case, ctx: &mut CaseCtx, rig: &mut Rig, poisoned: &mut bool) -> Outcome {
    let mut m = Model::new(case);
    m.absorb_emitted(rig, 0, None)?;
    let mut ended = false;
    for (i, op) in case.ops.iter().enumerate() {
        m.st.executed = i + 1;
        match apply_op(&mut m, rig, ctx, i + 1, op, poisoned)? {
            Flow::Continue => {}
            Flow::End => {
                ended = true;
                break;
            }
        }
    }
    if !ended {
        // every peer stream in use is offered exactly once, in order, and nothing else
        for d in 0..2 {
            while !m.accept_q[d].is_empty() {
                check_accept(&mut m, rig, d, usize::MAX)?;
            }
            check_accept(&mut m, rig, d, usize::MAX)?;
        }
        m.absorb_emitted(rig, usize::MAX, None)?;
    }
    classify(case, &m, ctx);
    Ok(())
}

fn classify(case: &Case, m: &Model, ctx: &mut CaseCtx) {
    let st = &m.st;
    ctx.class(format!(
        "cfg:{}:{}",
        if case.server { "server" } else { "client" },
        if case.demand { "demand" } else { "consistent" }
    ));
    if case.local.iter().chain(case.peer.iter()).any(|v| *v == 0) {
        ctx.class("cfg:some-limit-0");
    }
    if case.local.iter().chain(case.peer.iter()).any(|v| *v == MAX_COUNT) {
        ctx.class("cfg:some-limit-2^60");
    }
    ctx.class(match st.executed {
        0 => "ops:0",
        1..=4 => "ops:1-4",
        5..=14 => "ops:5-14",
        15..=29 => "ops:15-29",
        _ => "ops:30+",
    });
    match &st.ended {
        Some(why) => ctx.class(format!("ended:{why}")),
        None => ctx.class("ended:no-error"),
    }
    if st.implicit_multi {
        ctx.class(format!("implicit-open:{}", if st.implicit_max >= 4 { ">=4" } else { "2-3" }));
    }
    for (i, n) in ["limit-1", "limit", "limit+1"].iter().enumerate() {
        if st.at_limit[i] {
            ctx.class(format!("frame-at:{n}"));
        }
    }
    if st.open_ready > 0 {
        ctx.class("local-open:ready");
    }
    if st.open_blocked > 0 {
        ctx.class("local-open:blocked");
    }
    if st.unblocked_by_max_streams {
        ctx.class("local-open:unblocked-by-MAX_STREAMS");
    }
    if st.accepted > 0 {
        ctx.class("accept:yielded");
    }
    if st.closed_streams > 0 {
        ctx.class("recv-part-closed");
    }
    if st.closed_frames > 0 {
        ctx.class("frame-on-closed-stream");
    }
    if st.max_streams_emitted > 0 {
        ctx.class("MAX_STREAMS-emitted");
    }
    if st.final_size_checks > 0 {
        ctx.class("final-size-rule-exercised");
    }
    if st.either > 0 {
        ctx.class("rfc-leaves-open");
    }
    if !ctx.known.is_empty() {
        ctx.class("known-finding-inside");
    }
    if st.implicit_multi && st.at_limit.iter().any(|b| *b) {
        ctx.nontrivial();
        ctx.note(json!({
            "ops_executed": st.executed,
            "largest_implicit_open": st.implicit_max,
            "frames_at_limit_minus1_limit_plus1": st.at_limit,
            "ended": st.ended,
            "advertised": m.advertised,
            "peer_streams_used": m.cursor,
            "local_opened": m.opened,
        }));
    }
}

fn run_case(case: &Case, ctx: &mut CaseCtx) -> Outcome {
    // A panic inside the stack poisons its mutexes; dropping readers/writers afterwards would
    // lock them again and abort the process, so the rig is leaked in that case.
    let mut rig = ManuallyDrop::new(Rig::new(case)?);
    let mut poisoned = false;
    let r = history(case, ctx, &mut rig, &mut poisoned);
    if !poisoned {
        unsafe { ManuallyDrop::drop(&mut rig) };
    }
    r
}

// ---------------------------------------------------------------------------
// stage 3: 0-RTT — streams opened under remembered limits must stay silent while the limit
// the server really grants does not cover them
// ---------------------------------------------------------------------------

#[derive(Debug, Clone, Serialize, Deserialize, PartialEq)]
enum ZOp {
    Open { uni: bool },
    /// write `len` bytes on an opened stream
    Write { w: u16, len: u8 },
    /// assemble a packet
    Load { room: u16 },
    MaxStreams { uni: bool, by: u8 },
}

#[derive(Debug, Clone, Serialize, Deserialize)]
struct ZCase {
    /// limits remembered from the previous connection [bidi, uni]
    remembered: [u8; 2],
    /// limits the server grants this time
    granted: [u8; 2],
    /// the handshake completes before op number `at` (mapped onto 0..=ops.len())
    at: u16,
    /// the server rejected 0-RTT (always the case when it grants less than remembered)
    rejected: bool,
    ops: Vec<ZOp>,
}

struct Packet {
    buf: Vec<u8>,
    cap: usize,
    frames: Vec<StreamFrame>,
}

unsafe impl BufMut for Packet {
    fn remaining_mut(&self) -> usize {
        self.cap - self.buf.len()
    }
    unsafe fn advance_mut(&mut self, cnt: usize) {
        assert!(cnt <= self.remaining_mut(), "packet overflow");
        let n = self.buf.len() + cnt;
        unsafe { self.buf.set_len(n) };
    }
    fn chunk_mut(&mut self) -> &mut UninitSlice {
        let len = self.buf.len();
        let cap = self.cap;
        if self.buf.capacity() < cap {
            self.buf.reserve(cap - len);
        }
        let spare = &mut self.buf.spare_capacity_mut()[..cap - len];
        UninitSlice::uninit(spare)
    }
}

impl<'a> RecordFrame<Frame<&'a [Bytes]>, &'a [Bytes]> for Packet {
    fn record_frame(&mut self, frame: &Frame<&'a [Bytes]>) {
        if let Frame::Stream(f, _) = frame {
            self.frames.push(*f);
        }
    }
}

fn run_zero_rtt(case: &ZCase, ctx: &mut CaseCtx) -> Outcome {
    let peer_cid = ConnectionId::from_slice(&[9, 8, 7, 6, 5, 4, 3, 2]);
    let odcid = ConnectionId::from_slice(&[1, 2, 3, 4, 5, 6, 7, 8]);
    let rejected = case.rejected || case.granted[0] < case.remembered[0] || case.granted[1] < case.remembered[1];
    let mut local = ClientParameters::new();
    set_common(&mut local, 4, 4)?;
    let mut remembered = ServerParameters::new();
    set_common(&mut remembered, case.remembered[0] as u64, case.remembered[1] as u64)?;
    let mut granted = ServerParameters::new();
    set_common(&mut granted, case.granted[0] as u64, case.granted[1] as u64)?;
    granted.set(ParameterId::InitialSourceConnectionId, peer_cid).map_err(harness)?;
    granted.set(ParameterId::OriginalDestinationConnectionId, odcid).map_err(harness)?;
    let sink = CtlSink::default();
    let streams = DataStreams::new(
        Role::Client,
        &local,
        &remembered,
        Box::new(ConsistentConcurrency::new(4, 4)),
        sink.clone(),
        Default::default(),
        None,
    );
    let flow: ArcSendControler<CtlSink> = ArcSendControler::new(1 << 24, sink.clone(), Default::default());
    let params: ArcParameters = Parameters::new_client(local, Some(remembered), odcid).into();

    let total = case.ops.len();
    let at = gens::idx(case.at, total + 1);
    let mut done = false;
    let mut limit = [case.remembered[0] as u64, case.remembered[1] as u64];
    let mut opened = [0u64; 2];
    let mut writers: Vec<(StreamId, Wr, u64)> = vec![];
    let mut readers: Vec<Rd> = vec![];
    let mut beyond_after = false;
    let mut silent_loads = 0u32;
    let mut frames_total = 0u32;
    let mut released = false;
    let mut beyond_sent = false;
    let mut granted_opt = Some(granted);
    for step in 0..=total {
        if step == at {
            let g = granted_opt.take().unwrap();
            streams.revise_params(rejected, &g);
            flow.revise_max_data(rejected, 1 << 24);
            {
                let mut p = params.lock_guard().map_err(harness)?;
                p.initial_scid_from_peer_need_equal(peer_cid).map_err(harness)?;
                p.recv_remote_params(g).map_err(harness)?;
            }
            done = true;
            for d in 0..2 {
                limit[d] = if rejected { case.granted[d] as u64 } else { limit[d].max(case.granted[d] as u64) };
            }
            beyond_after = opened[0] > limit[0] || opened[1] > limit[1];
        }
        if step == total {
            break;
        }
        match &case.ops[step] {
            ZOp::Open { uni } => {
                let d = *uni as usize;
                let dir = if *uni { Dir::Uni } else { Dir::Bi };
                let got: Poll<Option<StreamId>> = if *uni {
                    match noop_cx(|cx| {
                        let mut fut = streams.open_uni(&params);
                        Pin::new(&mut fut).poll(cx)
                    }) {
                        Poll::Ready(Ok(Some((sid, wr)))) => {
                            writers.push((sid, wr, 0));
                            Poll::Ready(Some(sid))
                        }
                        Poll::Ready(other) => fail!("zero-rtt-open-error", "step {step}: open_uni = {:?}", other.map(|o| o.map(|x| x.0))),
                        Poll::Pending => Poll::Pending,
                    }
                } else {
                    match noop_cx(|cx| {
                        let mut fut = streams.open_bi(&params);
                        Pin::new(&mut fut).poll(cx)
                    }) {
                        Poll::Ready(Ok(Some((sid, (rd, wr))))) => {
                            readers.push(rd);
                            writers.push((sid, wr, 0));
                            Poll::Ready(Some(sid))
                        }
                        Poll::Ready(other) => fail!("zero-rtt-open-error", "step {step}: open_bi = {:?}", other.map(|o| o.map(|x| x.0))),
                        Poll::Pending => Poll::Pending,
                    }
                };
                let allowed = opened[d] < limit[d];
                match got {
                    Poll::Ready(Some(sid)) => {
                        ensure!(
                            allowed,
                            "open-beyond-peer-limit",
                            "step {step}: open ({dir}) returned {sid}: {} already opened, limit {} ({})",
                            opened[d],
                            limit[d],
                            if done { "granted by the server" } else { "remembered" }
                        );
                        ensure_eq!(sid, StreamId::new(Role::Client, dir, opened[d]), "open-wrong-stream-id", "step {step}: open ({dir})");
                        opened[d] += 1;
                    }
                    Poll::Ready(None) => unreachable!(),
                    Poll::Pending => ensure!(
                        !allowed,
                        "open-blocked-below-limit",
                        "step {step}: open ({dir}) pending with {} opened, limit {}",
                        opened[d],
                        limit[d]
                    ),
                }
            }
            ZOp::Write { w, len } => {
                if !writers.is_empty() {
                    let k = gens::idx(*w, writers.len());
                    let (sid, wr, written) = &mut writers[k];
                    let data = gens::content(u64::from(*sid), *written, *len as usize);
                    if wr.write(Bytes::from(data)).is_ok() {
                        *written += *len as u64;
                    }
                }
            }
            ZOp::Load { room } => {
                let mut pkt = Packet { buf: vec![], cap: *room as usize, frames: vec![] };
                let _ = streams.try_load_data_into(&mut pkt, &flow, !done);
                if pkt.frames.is_empty() {
                    silent_loads += 1;
                }
                for f in &pkt.frames {
                    frames_total += 1;
                    let sid = f.stream_id();
                    let d = sid.dir() as usize;
                    if sid.id() >= limit[d] {
                        let msg = format!(
                            "step {step}: STREAM frame {:?}{} sent on {sid} (index {}) while the peer allows {} such streams ({}); remembered limits {:?}, granted {:?}",
                            f.range(),
                            if f.is_fin() { " FIN" } else { "" },
                            sid.id(),
                            limit[d],
                            if done { "granted after the handshake" } else { "remembered" },
                            case.remembered,
                            case.granted
                        );
                        if done && rejected && sid.id() < case.remembered[d] as u64 {
                            // opened legitimately under the remembered limit, not covered by the
                            // limit granted after the rejection: keep going behind it
                            ctx.known.push(Fail::new(SIG_ZERO_RTT, msg));
                            beyond_sent = true;
                        } else {
                            return Err(Fail::new("stream-frame-beyond-peer-limit", msg));
                        }
                    }
                    if done && rejected && sid.id() >= case.granted[d] as u64 {
                        released = true;
                    }
                }
            }
            ZOp::MaxStreams { uni, by } => {
                if done {
                    let d = *uni as usize;
                    let dir = if *uni { Dir::Uni } else { Dir::Bi };
                    let v = limit[d] + *by as u64;
                    streams
                        .recv_stream_control(StreamCtlFrame::MaxStreams(MaxStreamsFrame::with(dir, vi(v))))
                        .map_err(|e| Fail::new("unexpected-error:max-streams", format!("step {step}: {e:?}")))?;
                    limit[d] = limit[d].max(v);
                }
            }
        }
        // STREAMS_BLOCKED values must name the limit in force
        for f in std::mem::take(&mut *sink.0.lock().unwrap()) {
            if let StreamCtlFrame::StreamsBlocked(sb) = f {
                let (d, v) = match sb {
                    StreamsBlockedFrame::Bi(v) => (0, v.into_u64()),
                    StreamsBlockedFrame::Uni(v) => (1, v.into_u64()),
                };
                ensure_eq!(v, limit[d], "streams-blocked-wrong-value", "step {step}: STREAMS_BLOCKED (dir {d})");
            }
        }
    }
    ctx.class(if rejected { "0rtt:rejected" } else { "0rtt:accepted" });
    if beyond_after {
        ctx.class("opened-beyond-granted-limit");
    }
    if released {
        ctx.class("stream-beyond-old-limit-sent-after-MAX_STREAMS");
    }
    if silent_loads > 0 {
        ctx.class("load:nothing");
    }
    if frames_total > 0 {
        ctx.class("load:frames");
    }
    if beyond_sent {
        ctx.class("known:stream-beyond-granted-limit-sent");
    }
    if beyond_after && frames_total > 0 {
        ctx.nontrivial();
    }
    drop(writers);
    drop(readers);
    Ok(())
}

// ---------------------------------------------------------------------------
// generators
// ---------------------------------------------------------------------------

fn limit_strategy() -> BoxedStrategy<u64> {
    prop_oneof![
        24 => 0u64..=8,
        15 => 9u64..=40,
        1 => Just(MAX_COUNT),
    ]
    .boxed()
}

fn sender_kind() -> BoxedStrategy<Kind> {
    prop_oneof![32 => Just(Kind::RBi), 32 => Just(Kind::RUni), 16 => Just(Kind::LBi), 1 => Just(Kind::LUni)].boxed()
}

fn receiver_kind() -> BoxedStrategy<Kind> {
    prop_oneof![32 => Just(Kind::RBi), 16 => Just(Kind::LBi), 16 => Just(Kind::LUni), 1 => Just(Kind::RUni)].boxed()
}

fn ix_strategy() -> BoxedStrategy<Ix> {
    prop_oneof![
        30 => any::<u16>().prop_map(Ix::Existing),
        8 => Just(Ix::Next),
        4 => (1u8..=4).prop_map(Ix::Skip),
        4 => Just(Ix::AtLimit(-1)),
        1 => Just(Ix::AtLimit(0)),
        1 => Just(Ix::AtLimit(1)),
        1 => (0u16..200).prop_map(Ix::Above),
    ]
    .boxed()
}

fn pos_strategy() -> BoxedStrategy<Pos> {
    prop_oneof![
        5 => (0u16..=40, 0u16..=16).prop_map(|(off, len)| Pos::Free { off, len }),
        1 => (0u16..=600, 0u16..=300).prop_map(|(off, len)| Pos::Free { off, len }),
        4 => (0u8..=12).prop_map(|len| Pos::InOrder { len }),
        4 => (-2i8..=2, 0u8..=12).prop_map(|(delta, len)| Pos::EndRel { delta, len }),
        3 => Just(Pos::Whole),
    ]
    .boxed()
}

fn op_strategy() -> BoxedStrategy<Op> {
    let stream = (sender_kind(), ix_strategy(), pos_strategy(), prop::bool::weighted(0.35))
        .prop_map(|(kind, ix, pos, fin)| Op::Stream { kind, ix, pos, fin });
    let reset = (
        sender_kind(),
        ix_strategy(),
        prop_oneof![3 => (-2i8..=2).prop_map(Sz::Rel), 2 => (0u16..=60).prop_map(Sz::Free)],
    )
        .prop_map(|(kind, ix, size)| Op::Reset { kind, ix, size });
    let stop = (receiver_kind(), ix_strategy()).prop_map(|(kind, ix)| Op::StopSending { kind, ix });
    let msd = (receiver_kind(), ix_strategy(), any::<u16>()).prop_map(|(kind, ix, val)| Op::MaxStreamData { kind, ix, val });
    let sdb = (sender_kind(), ix_strategy(), any::<u16>()).prop_map(|(kind, ix, val)| Op::StreamDataBlocked { kind, ix, val });
    let max_streams = (
        any::<bool>(),
        prop_oneof![
            6 => (-2i8..=4).prop_map(Lim::Rel),
            2 => (0u16..=50).prop_map(Lim::Abs),
            1 => Just(Lim::Huge),
        ],
    )
        .prop_map(|(uni, val)| Op::MaxStreams { uni, val });
    let streams_blocked = (
        any::<bool>(),
        prop_oneof![
            40 => Just(Sb::Current),
            12 => any::<u16>().prop_map(Sb::Stale),
            6 => (0u8..=3).prop_map(Sb::Above),
            1 => (0u8..=2).prop_map(Sb::Edge),
        ],
    )
        .prop_map(|(uni, val)| Op::StreamsBlocked { uni, val });
    prop_oneof![
        16 => stream,
        6 => reset,
        3 => stop,
        2 => msd,
        2 => sdb,
        8 => any::<bool>().prop_map(|uni| Op::Open { uni }),
        5 => any::<bool>().prop_map(|uni| Op::Accept { uni }),
        5 => max_streams,
        4 => streams_blocked,
        3 => any::<u16>().prop_map(|i| Op::AckReset { i }),
        2 => any::<u16>().prop_map(|w| Op::Cancel { w }),
    ]
    .boxed()
}

fn case_strategy(max_ops: usize) -> BoxedStrategy<Case> {
    (
        any::<bool>(),
        any::<bool>(),
        [limit_strategy(), limit_strategy()],
        [limit_strategy(), limit_strategy()],
        proptest::collection::vec(op_strategy(), 0..=max_ops),
    )
        .prop_map(|(server, demand, local, peer, ops)| Case { server, demand, local, peer, ops })
        .boxed()
}

fn zero_rtt_strategy(max_ops: usize) -> BoxedStrategy<ZCase> {
    let op = prop_oneof![
        4 => any::<bool>().prop_map(|uni| ZOp::Open { uni }),
        4 => (any::<u16>(), 1u8..=40).prop_map(|(w, len)| ZOp::Write { w, len }),
        4 => prop_oneof![Just(1200u16), 30u16..=200].prop_map(|room| ZOp::Load { room }),
        2 => (any::<bool>(), 0u8..=3).prop_map(|(uni, by)| ZOp::MaxStreams { uni, by }),
    ];
    (
        [0u8..=5, 0u8..=5],
        [0u8..=5, 0u8..=5],
        any::<u16>(),
        any::<bool>(),
        proptest::collection::vec(op, 0..=max_ops),
    )
        .prop_map(|(remembered, granted, at, rejected, ops)| ZCase { remembered, granted, at, rejected, ops })
        .boxed()
}

/// Absolute alphabet of the exhaustive stage.
fn small_alphabet(full: bool) -> Vec<Op> {
    let mut v = vec![
        Op::Open { uni: false },
        Op::Open { uni: true },
        Op::Accept { uni: false },
        Op::Accept { uni: true },
        Op::MaxStreams { uni: false, val: Lim::Abs(2) },
        Op::MaxStreams { uni: true, val: Lim::Abs(1) },
        Op::StreamsBlocked { uni: false, val: Sb::Current },
        Op::StreamsBlocked { uni: true, val: Sb::Stale(0) },
        Op::AckReset { i: 0 },
    ];
    let top = if full { 3 } else { 2 };
    for kind in [Kind::RBi, Kind::RUni, Kind::LBi, Kind::LUni] {
        for i in 0..=top {
            let ix = Ix::Abs(i);
            v.push(Op::Stream { kind, ix: ix.clone(), pos: Pos::Free { off: 0, len: 1 }, fin: false });
            v.push(Op::Stream { kind, ix: ix.clone(), pos: Pos::Free { off: 0, len: 1 }, fin: true });
            v.push(Op::Stream { kind, ix: ix.clone(), pos: Pos::Free { off: 1, len: 1 }, fin: true });
            v.push(Op::Reset { kind, ix: ix.clone(), size: Sz::Free(0) });
            v.push(Op::Reset { kind, ix: ix.clone(), size: Sz::Free(1) });
            v.push(Op::StopSending { kind, ix: ix.clone() });
            v.push(Op::MaxStreamData { kind, ix: ix.clone(), val: 9 });
            v.push(Op::StreamDataBlocked { kind, ix, val: 9 });
        }
    }
    v
}

fn main() {
    let mut check = Check::from_env("C12", "exploration");
    check.rule(
        "case = role x concurrency strategy (Consistent/Demand) x initial stream counts (0..8, 9..40, 2^60; both directions, both sides) + \
         op list over {open_bi/uni, accept_bi/uni (polled once), peer MAX_STREAMS, STREAMS_BLOCKED (current / stale / above / >2^60), \
         peer STREAM / RESET_STREAM / STOP_SENDING / MAX_STREAM_DATA / STREAM_DATA_BLOCKED on all four stream kinds with indices chosen \
         relative to cursor and limit and offsets/FIN/final sizes chosen relative to the model's final size, ack of an emitted RESET_STREAM, \
         Writer::cancel}; a history stops at the first connection error. non-trivial = one frame implicitly opened >=2 peer streams AND \
         some frame addressed index limit-1, limit or limit+1 of a peer-initiated kind (random stage); every case with >=2 ops (exhaustive stage); \
         0-RTT stage: streams were open beyond the limit granted after the handshake and STREAM frames were produced. distinct = hash of the serialised case.",
    );
    check.assume("every offset stays below the advertised stream receive window (4096), so FLOW_CONTROL_ERROR (property C11) never competes with FINAL_SIZE_ERROR");
    check.assume("the advertised stream count is the initial_max_streams_* parameter or the largest MAX_STREAMS value the endpoint emitted; a peer index below it must never get STREAM_LIMIT_ERROR");
    check.assume("an empty STREAM frame without FIN at offset X may or may not count as received data up to X; after the receiving part is closed a contradicting final size may be ignored (RFC 9000 4.5 SHOULD)");
    check.assume("STREAMS_BLOCKED values are limits the peer really held (current or earlier advertised), values above everything advertised, or the 2^60 / 2^60+1 / 2^62-1 edges");
    check.max_shrink_iters = 6000;

    // ---- exhaustive: every sequence of <=2 (thorough: <=3 on a reduced grid) ops of an absolute alphabet
    let quick = check.quick();
    check.exhaustive::<Case, _>("exhaustive-small", true, |e| {
        let alpha = small_alphabet(true);
        for server in [false, true] {
            for demand in [false, true] {
                for l in 0..=2u64 {
                    for p in 0..=1u64 {
                        let mk = |ops: Vec<Op>| Case { server, demand, local: [l, l], peer: [p, p], ops };
                        for a in &alpha {
                            e.case(&mk(vec![a.clone()]), |c, ctx| run_case(c, ctx));
                            for b in &alpha {
                                e.case(&mk(vec![a.clone(), b.clone()]), |c, ctx| {
                                    let r = run_case(c, ctx);
                                    ctx.nontrivial = true;
                                    r
                                });
                                if e.stopped() {
                                    return;
                                }
                            }
                        }
                    }
                }
            }
        }
        if quick {
            return;
        }
        let alpha = small_alphabet(false);
        for server in [false, true] {
            for demand in [false, true] {
                for l in 1..=2u64 {
                    let mk = |ops: Vec<Op>| Case { server, demand, local: [l, l], peer: [1, 1], ops };
                    for a in &alpha {
                        for b in &alpha {
                            for c3 in &alpha {
                                e.case(&mk(vec![a.clone(), b.clone(), c3.clone()]), |c, ctx| {
                                    let r = run_case(c, ctx);
                                    ctx.nontrivial = true;
                                    r
                                });
                            }
                            if e.stopped() {
                                return;
                            }
                        }
                    }
                }
            }
        }
    });

    // ---- random model-based histories
    let n = check.pick(100_000, 3_000_000);
    check.stage("random-histories", n, 16, || case_strategy(60), run_case);

    // ---- 0-RTT: remembered vs granted stream limits
    let n = check.pick(20_000, 1_000_000);
    check.stage("zero-rtt-limits", n, 16, || zero_rtt_strategy(40), run_zero_rtt);

    check.finish();
}
