//! C18 — peer transport parameters are validated and bound to the on-wire connection IDs.
//!
//! A case is the *wire image* of the peer's transport-parameter extension (built from a
//! generated description: ids, encodings, bodies, cuts, byte flips), the connection IDs
//! observed on the wire, the local role, the arrival order of "first Initial packet" and
//! "TLS extension", the local idle timeout and (client only) a remembered parameter set.
//!
//! Oracle: an independent reference decoder for RFC 9000 §18 / §7.3 / §7.4 (plus RFC 9221,
//! RFC 9287 and the library's `client_name` extension) judges the blob byte by byte and
//! lists every violated clause. `parse_from_bytes` must return a TRANSPORT_PARAMETER error
//! iff at least one clause is violated (never panic), an accepted set must report exactly
//! the declared values (defaults for absent ids), and `Parameters`/`ArcParameters` must
//! become ready iff the declared connection IDs equal the observed ones, in both arrival
//! orders; otherwise the call that completes the information fails with a
//! TRANSPORT_PARAMETER error. Idle timeout = smaller non-zero value; 0-RTT is honoured iff
//! no remembered limit exceeds the new one.

use std::{
    collections::{BTreeMap, BTreeSet},
    future::Future,
    pin::pin,
    sync::{
        Arc, OnceLock,
        atomic::{AtomicBool, Ordering},
    },
    task::{Context, Poll},
    time::Duration,
};

use bytes::Bytes;
use proptest::prelude::*;
use qbase::{
    cid::ConnectionId,
    error::{ErrorKind, QuicError},
    packet::PacketContent,
    param::{
        ArcParameters, ClientParameters, ParameterId, Parameters, PeerParameters,
        ServerParameters, WriteParameters, core::Parameters as RoleParams, handy,
        preferred_address::PreferredAddress,
    },
    role::{IntoRole, RequiredParameters},
    time::ArcIdleConfig,
    token::ResetToken,
};
use serde::{Deserialize, Serialize};
use serde_json::json;
use vcore::{CaseCtx, Check, Fail, Outcome, ensure, ensure_eq, fail, gens};

// ---------------------------------------------------------------------------
// the table of RFC 9000 §18.2 (+ RFC 9221, RFC 9287, genmeta client_name)
// ---------------------------------------------------------------------------

const ODCID: u64 = 0x00;
const IDLE: u64 = 0x01;
const TOKEN: u64 = 0x02;
const UDP: u64 = 0x03;
const MAXDATA: u64 = 0x04;
const SD_BL: u64 = 0x05;
const SD_BR: u64 = 0x06;
const SD_UNI: u64 = 0x07;
const STREAMS_BIDI: u64 = 0x08;
const STREAMS_UNI: u64 = 0x09;
const ADE: u64 = 0x0a;
const MAD: u64 = 0x0b;
const DAM: u64 = 0x0c;
const PA: u64 = 0x0d;
const ACIL: u64 = 0x0e;
const ISCID: u64 = 0x0f;
const RSCID: u64 = 0x10;
const DGRAM: u64 = 0x20;
const GREASE: u64 = 0x2ab2;
const CNAME: u64 = 0xffee;

const VARINT_MAX: u64 = (1 << 62) - 1;
const MAX_STREAMS: u64 = 1 << 60;

#[derive(Clone, Copy, PartialEq, Eq, Debug)]
enum Ty {
    Int,
    Dur,
    Bool,
    Bytes,
    Cid,
    Token,
    Pa,
}

const KNOWN: [(u64, Ty, ParameterId); 20] = [
    (ODCID, Ty::Cid, ParameterId::OriginalDestinationConnectionId),
    (IDLE, Ty::Dur, ParameterId::MaxIdleTimeout),
    (TOKEN, Ty::Token, ParameterId::StatelessResetToken),
    (UDP, Ty::Int, ParameterId::MaxUdpPayloadSize),
    (MAXDATA, Ty::Int, ParameterId::InitialMaxData),
    (SD_BL, Ty::Int, ParameterId::InitialMaxStreamDataBidiLocal),
    (SD_BR, Ty::Int, ParameterId::InitialMaxStreamDataBidiRemote),
    (SD_UNI, Ty::Int, ParameterId::InitialMaxStreamDataUni),
    (STREAMS_BIDI, Ty::Int, ParameterId::InitialMaxStreamsBidi),
    (STREAMS_UNI, Ty::Int, ParameterId::InitialMaxStreamsUni),
    (ADE, Ty::Int, ParameterId::AckDelayExponent),
    (MAD, Ty::Dur, ParameterId::MaxAckDelay),
    (DAM, Ty::Bool, ParameterId::DisableActiveMigration),
    (PA, Ty::Pa, ParameterId::PreferredAddress),
    (ACIL, Ty::Int, ParameterId::ActiveConnectionIdLimit),
    (ISCID, Ty::Cid, ParameterId::InitialSourceConnectionId),
    (RSCID, Ty::Cid, ParameterId::RetrySourceConnectionId),
    (DGRAM, Ty::Int, ParameterId::MaxDatagramFrameSize),
    (GREASE, Ty::Bool, ParameterId::GreaseQuicBit),
    (CNAME, Ty::Bytes, ParameterId::ClientName),
];

fn known(id: u64) -> Option<(Ty, ParameterId)> {
    KNOWN.iter().find(|k| k.0 == id).map(|k| (k.1, k.2))
}

/// ids only a server may send / only a client may send
const SERVER_ONLY: [u64; 4] = [ODCID, TOKEN, PA, RSCID];
const CLIENT_ONLY: [u64; 1] = [CNAME];

/// the limits a server must not reduce between the remembered and the new set (RFC 9000 §7.4.1, RFC 9221 §3)
const ZERO_RTT_LIMITS: [u64; 8] = [
    MAXDATA,
    SD_BL,
    SD_BR,
    SD_UNI,
    STREAMS_BIDI,
    STREAMS_UNI,
    ACIL,
    DGRAM,
];

fn default_int(id: u64) -> u64 {
    match id {
        UDP => 65527,
        ADE => 3,
        ACIL => 2,
        MAD => 25,
        _ => 0,
    }
}

// ---------------------------------------------------------------------------
// case
// ---------------------------------------------------------------------------

#[derive(Debug, Clone, Serialize, Deserialize, PartialEq)]
struct Entry {
    id: u64,
    /// extra doublings of the minimal varint width for the id / the length field
    id_w: u8,
    len_w: u8,
    body: Vec<u8>,
}

#[derive(Debug, Clone, Serialize, Deserialize, PartialEq, Default)]
struct Blob {
    entries: Vec<Entry>,
    /// bytes removed from the end of the encoded blob
    cut: u16,
    /// (position, xor mask) applied to the encoded blob (ignored when out of range)
    flips: Vec<(u16, u8)>,
}

#[derive(Debug, Clone, Serialize, Deserialize)]
struct Case {
    /// local role; the peer (sender of `peer`) has the other one
    local_server: bool,
    peer: Blob,
    /// source connection id of the peer's first Initial packet
    observed_scid: Vec<u8>,
    /// destination connection id of the client's first Initial packet (client-local only)
    origin_dcid: Vec<u8>,
    /// true: the Initial packet is processed before the TLS extension
    scid_first: bool,
    local_idle_ms: u64,
    /// client only: parameters remembered from an earlier connection
    remembered: Option<Blob>,
}

fn vi_min_size(v: u64) -> usize {
    if v < 64 {
        1
    } else if v < 16384 {
        2
    } else if v < (1 << 30) {
        4
    } else {
        8
    }
}

fn put_vi(out: &mut Vec<u8>, v: u64, extra: u8) {
    let v = v & VARINT_MAX;
    let mut size = vi_min_size(v);
    for _ in 0..extra.min(3) {
        if size < 8 {
            size *= 2;
        }
    }
    match size {
        1 => out.push(v as u8),
        2 => out.extend_from_slice(&((v as u16) | 0x4000).to_be_bytes()),
        4 => out.extend_from_slice(&((v as u32) | 0x8000_0000).to_be_bytes()),
        _ => out.extend_from_slice(&(v | 0xC000_0000_0000_0000).to_be_bytes()),
    }
}

fn vi(v: u64) -> Vec<u8> {
    let mut o = vec![];
    put_vi(&mut o, v, 0);
    o
}

/// (value, bytes consumed) or None when the input is too short
fn get_vi(b: &[u8]) -> Option<(u64, usize)> {
    let first = *b.first()?;
    let size = 1usize << (first >> 6);
    if b.len() < size {
        return None;
    }
    let mut v = (first & 0x3f) as u64;
    for x in &b[1..size] {
        v = (v << 8) | *x as u64;
    }
    Some((v, size))
}

fn blob_bytes(b: &Blob) -> Vec<u8> {
    let mut out = vec![];
    for e in &b.entries {
        put_vi(&mut out, e.id, e.id_w);
        put_vi(&mut out, e.body.len() as u64, e.len_w);
        out.extend_from_slice(&e.body);
    }
    let keep = out.len().saturating_sub(b.cut as usize);
    out.truncate(keep);
    for (pos, mask) in &b.flips {
        if let Some(x) = out.get_mut(*pos as usize) {
            *x ^= *mask;
        }
    }
    out
}

// ---------------------------------------------------------------------------
// reference decoder
// ---------------------------------------------------------------------------

#[derive(Debug, Clone, PartialEq)]
enum RefVal {
    Int(u64),
    Bool,
    Bytes(Vec<u8>),
    Cid(Vec<u8>),
    Token(Vec<u8>),
    Pa {
        v4: Vec<u8>,
        v6: Vec<u8>,
        cid: Vec<u8>,
        token: Vec<u8>,
    },
}

#[derive(Debug, Clone, Copy, PartialEq, Eq)]
enum Sev {
    /// the set is invalid: parsing must fail with TRANSPORT_PARAMETER_ERROR
    Hard,
    /// RFC leaves it open (SHOULD / not stated): accepting and rejecting are both fine
    Soft,
    /// may be rejected when parsing; if accepted the connection must never become ready
    Deferred,
}

#[derive(Debug, Clone)]
struct Viol {
    entry: Option<usize>,
    tag: &'static str,
    sev: Sev,
}

#[derive(Debug, Default)]
struct RefParse {
    viols: Vec<Viol>,
    /// every well-formed instance of a known, role-legal id, in wire order
    vals: BTreeMap<u64, Vec<RefVal>>,
    /// ids for which the reference has no value to compare (malformed or role-illegal instance)
    opaque: BTreeSet<u64>,
    seen: BTreeSet<u64>,
    unknown: usize,
    entries: usize,
}

impl RefParse {
    fn hard(&self) -> impl Iterator<Item = &Viol> {
        self.viols.iter().filter(|v| v.sev == Sev::Hard)
    }
    fn count(&self, sev: Sev) -> usize {
        self.viols.iter().filter(|v| v.sev == sev).count()
    }
    fn last(&self, id: u64) -> Option<&RefVal> {
        self.vals.get(&id).and_then(|v| v.last())
    }
    fn int_or_default(&self, id: u64) -> u64 {
        match self.last(id) {
            Some(RefVal::Int(v)) => *v,
            _ => default_int(id),
        }
    }
    fn cid(&self, id: u64) -> Option<&[u8]> {
        match self.last(id) {
            Some(RefVal::Cid(c)) => Some(c),
            _ => None,
        }
    }
    fn duplicated(&self, id: u64) -> bool {
        self.vals.get(&id).is_some_and(|v| v.len() > 1)
    }
}

fn decode_value(id: u64, ty: Ty, body: &[u8]) -> Result<RefVal, &'static str> {
    match ty {
        Ty::Int | Ty::Dur => {
            if body.is_empty() {
                return Err("varint-empty");
            }
            match get_vi(body) {
                None => Err("varint-short"),
                Some((_, n)) if n < body.len() => Err("varint-trailing"),
                Some((v, _)) => Ok(RefVal::Int(v)),
            }
        }
        Ty::Bool => {
            if body.is_empty() {
                Ok(RefVal::Bool)
            } else {
                Err("bool-nonempty")
            }
        }
        Ty::Bytes => Ok(RefVal::Bytes(body.to_vec())),
        Ty::Cid => {
            if body.len() > 20 {
                Err("cid-gt20")
            } else {
                Ok(RefVal::Cid(body.to_vec()))
            }
        }
        Ty::Token => match body.len() {
            16 => Ok(RefVal::Token(body.to_vec())),
            n if n < 16 => Err("token-short"),
            _ => Err("token-long"),
        },
        Ty::Pa => {
            let _ = id;
            if body.len() < 25 {
                return Err("pa-short-head");
            }
            let cl = body[24] as usize;
            if cl > 20 {
                return Err("pa-cid-gt20");
            }
            if body.len() < 25 + cl {
                return Err("pa-short-head");
            }
            let rest = &body[25 + cl..];
            if rest.len() < 16 {
                return Err("pa-token-short");
            }
            if rest.len() > 16 {
                return Err("pa-trailing");
            }
            Ok(RefVal::Pa {
                v4: body[..6].to_vec(),
                v6: body[6..24].to_vec(),
                cid: body[25..25 + cl].to_vec(),
                token: rest.to_vec(),
            })
        }
    }
}

fn range_check(id: u64, v: u64) -> Option<(&'static str, Sev)> {
    match id {
        UDP if v < 1200 => Some(("udp-lt1200", Sev::Hard)),
        // RFC 9000 only says "values below 1200 are invalid"; 65527 is the largest possible payload
        UDP if v > 65527 => Some(("udp-gt65527", Sev::Soft)),
        ADE if v > 20 => Some(("ade-gt20", Sev::Hard)),
        MAD if v >= (1 << 14) => Some(("mad-ge-2^14", Sev::Hard)),
        ACIL if v < 2 => Some(("acil-lt2", Sev::Hard)),
        STREAMS_BIDI if v > MAX_STREAMS => Some(("streams-bidi-gt-2^60", Sev::Hard)),
        STREAMS_UNI if v > MAX_STREAMS => Some(("streams-uni-gt-2^60", Sev::Hard)),
        _ => None,
    }
}

fn role_tag(id: u64) -> &'static str {
    match id {
        ODCID => "role-odcid-from-client",
        TOKEN => "role-token-from-client",
        PA => "role-pa-from-client",
        RSCID => "role-rscid-from-client",
        _ => "role-clientname-from-server",
    }
}

fn ref_parse(bytes: &[u8], sender_server: bool) -> RefParse {
    let mut r = RefParse::default();
    let mut pos = 0usize;
    let mut framing_ok = true;
    while pos < bytes.len() {
        let idx = r.entries;
        let Some((id, n)) = get_vi(&bytes[pos..]) else {
            framing_ok = false;
            break;
        };
        pos += n;
        let Some((len, n)) = get_vi(&bytes[pos..]) else {
            framing_ok = false;
            break;
        };
        pos += n;
        if ((bytes.len() - pos) as u64) < len {
            framing_ok = false;
            break;
        }
        let body = &bytes[pos..pos + len as usize];
        pos += len as usize;
        r.entries += 1;
        let Some((ty, _)) = known(id) else {
            r.unknown += 1;
            continue;
        };
        let first = r.seen.insert(id);
        let role_ok = if sender_server {
            !CLIENT_ONLY.contains(&id)
        } else {
            !SERVER_ONLY.contains(&id)
        };
        if !role_ok {
            r.opaque.insert(id);
            r.viols.push(Viol { entry: Some(idx), tag: role_tag(id), sev: Sev::Hard });
            continue;
        }
        if !first {
            // RFC 9000 §7.4: MUST NOT send twice; the receiver SHOULD treat it as an error
            r.viols.push(Viol { entry: Some(idx), tag: "dup", sev: Sev::Soft });
        }
        match decode_value(id, ty, body) {
            Err(tag) => {
                r.opaque.insert(id);
                r.viols.push(Viol { entry: Some(idx), tag, sev: Sev::Hard });
            }
            Ok(val) => {
                if let RefVal::Int(v) = &val {
                    if let Some((tag, sev)) = range_check(id, *v) {
                        r.viols.push(Viol { entry: Some(idx), tag, sev });
                    }
                }
                if let RefVal::Pa { cid, .. } = &val {
                    if cid.is_empty() {
                        // RFC 9000 §18.2: a server MUST NOT include a zero-length connection ID here
                        r.viols.push(Viol { entry: Some(idx), tag: "pa-zero-cid", sev: Sev::Hard });
                    }
                }
                if id == RSCID {
                    // the client never processes a Retry packet (qinterface drops them), so a
                    // retry_source_connection_id can never be legitimate (RFC 9000 §7.3)
                    r.viols.push(Viol {
                        entry: Some(idx),
                        tag: "rscid-without-retry",
                        sev: Sev::Deferred,
                    });
                }
                r.vals.entry(id).or_default().push(val);
            }
        }
    }
    if !framing_ok {
        r.viols.push(Viol { entry: Some(r.entries), tag: "framing-truncated", sev: Sev::Hard });
        return r;
    }
    if !r.seen.contains(&ISCID) {
        r.viols.push(Viol { entry: None, tag: "missing-iscid", sev: Sev::Hard });
    }
    if sender_server && !r.seen.contains(&ODCID) {
        r.viols.push(Viol { entry: None, tag: "missing-odcid", sev: Sev::Hard });
    }
    if r.vals.contains_key(&PA)
        && r.vals.get(&ISCID).is_some_and(|v| v.iter().any(|c| matches!(c, RefVal::Cid(c) if c.is_empty())))
    {
        // RFC 9000 §18.2: a server that chooses a zero-length connection ID MUST NOT provide a preferred address
        r.viols.push(Viol { entry: None, tag: "pa-with-empty-iscid", sev: Sev::Hard });
    }
    r
}

// ---------------------------------------------------------------------------
// known findings listed for this property (so the oracle can continue behind them)
// ---------------------------------------------------------------------------

static LISTED: OnceLock<Vec<String>> = OnceLock::new();

fn listed(sig: &str) -> bool {
    LISTED.get().is_some_and(|l| {
        l.iter().any(|p| match p.strip_suffix('*') {
            Some(prefix) => sig.starts_with(prefix),
            None => p == sig,
        })
    })
}

/// A failure that is a *candidate known finding*: tolerated (recorded, case continues) when it
/// is listed in known-findings, returned as the case's failure otherwise.
fn tolerate(ctx: &mut CaseCtx, f: Fail) -> Outcome {
    if listed(&f.signature) {
        ctx.known.push(f);
        Ok(())
    } else {
        Err(f)
    }
}

// ---------------------------------------------------------------------------
// parse_from_bytes vs the reference
// ---------------------------------------------------------------------------

/// panic classes of the decoder (root cause, tags that may trigger it)
fn panic_class(f: &Fail) -> Option<(&'static str, &'static [&'static str])> {
    if f.msg.contains("should consume all data") {
        Some((
            "panic-trailing",
            &["varint-trailing", "bool-nonempty", "token-long", "pa-trailing"],
        ))
    } else if f.msg.contains("Only incomplete errors should occur") {
        Some(("panic-nomerr", &["token-short", "pa-cid-gt20", "pa-token-short"]))
    } else if f.signature.contains("cid/connection_id.rs") {
        Some(("panic-cid-gt20", &["cid-gt20"]))
    } else {
        None
    }
}

fn check_error_kind(e: &QuicError, what: &str) -> Outcome {
    ensure!(
        e.kind() == ErrorKind::TransportParameter,
        "error-kind",
        "{what}: error is {:?}, not TransportParameter: {e:?}",
        e.kind()
    );
    Ok(())
}

fn check_parse<R>(
    bytes: &[u8],
    r: &RefParse,
    ctx: &mut CaseCtx,
    what: &str,
) -> Result<Option<RoleParams<R>>, Fail>
where
    R: IntoRole + RequiredParameters + Default + PartialEq + std::fmt::Debug + Clone,
{
    let res = vcore::guarded(|| Ok(RoleParams::<R>::parse_from_bytes(bytes)));
    match res {
        Err(p) => {
            // never a panic; known decoder panics get a signature by root cause + malformation
            if let Some((root, tags)) = panic_class(&p) {
                if let Some(v) = r.hard().find(|v| tags.contains(&v.tag)) {
                    let sig = if root == "panic-cid-gt20" {
                        root.to_string()
                    } else {
                        format!("{root}:{}", v.tag)
                    };
                    ctx.class(format!("verdict=panic:{}", v.tag));
                    return Err(Fail::new(
                        sig,
                        format!("{what}: {} on blob {:02x?} (malformation {} in entry {:?})", p.msg, bytes, v.tag, v.entry),
                    ));
                }
            }
            Err(Fail::new(p.signature, format!("{what}: {} on blob {bytes:02x?}", p.msg)))
        }
        Ok(Err(e)) => {
            check_error_kind(&e, what)?;
            if r.viols.is_empty() {
                fail!(
                    "valid-rejected",
                    "{what}: a valid parameter set was rejected: {e:?}; blob {bytes:02x?}"
                );
            }
            if r.count(Sev::Hard) == 0 {
                ctx.class("verdict=soft-rejected");
            }
            Ok(None)
        }
        Ok(Ok(p)) => {
            let hard: Vec<&Viol> = r.hard().collect();
            // report an unlisted violation first; listed ones are recorded and we carry on
            let mut pending = None;
            for v in &hard {
                let f = Fail::new(
                    format!("accepted-invalid:{}", v.tag),
                    format!(
                        "{what}: parse_from_bytes accepted a set violating '{}' (entry {:?}); blob {bytes:02x?}",
                        v.tag, v.entry
                    ),
                );
                if !listed(&f.signature) {
                    return Err(f);
                }
                pending.get_or_insert(f);
            }
            if let Some(f) = pending {
                tolerate(ctx, f)?;
            }
            compare_values(&p, r, what)?;
            // what is written for the local side must read back identically
            let mut buf = Vec::new();
            buf.put_parameters(&p);
            let again = vcore::guarded(|| Ok(RoleParams::<R>::parse_from_bytes(&buf)));
            match again {
                Ok(Ok(q)) => ensure!(q == p, "roundtrip", "{what}: written parameters read back differently: {p:?} vs {q:?}"),
                Ok(Err(e)) if hard.is_empty() => {
                    fail!("roundtrip", "{what}: written parameters are rejected: {e:?} ({p:?})")
                }
                Err(f) if hard.is_empty() => {
                    fail!("roundtrip", "{what}: written parameters panic the decoder: {}", f.msg)
                }
                _ => {}
            }
            Ok(Some(p))
        }
    }
}

fn compare_values<R>(p: &RoleParams<R>, r: &RefParse, what: &str) -> Outcome {
    for (id, ty, pid) in KNOWN {
        if r.opaque.contains(&id) {
            continue;
        }
        let inst: &[RefVal] = r.vals.get(&id).map(|v| &v[..]).unwrap_or(&[]);
        ensure_eq!(
            p.contains(pid),
            !inst.is_empty(),
            "value-contains",
            "{what}: contains({pid:?})"
        );
        // with duplicates (tolerated) any declared instance is acceptable
        let ok = |got: Option<RefVal>, default: Option<RefVal>| -> bool {
            if inst.is_empty() {
                got == default
            } else {
                got.is_some_and(|g| inst.contains(&g))
            }
        };
        let (got, default) = match ty {
            Ty::Int => (
                p.get::<u64>(pid).map(RefVal::Int),
                Some(RefVal::Int(default_int(id))),
            ),
            Ty::Dur => {
                let g = p.get::<Duration>(pid);
                if let Some(d) = g {
                    ensure!(
                        d.subsec_nanos() % 1_000_000 == 0,
                        "value-duration",
                        "{what}: {pid:?} = {d:?} is not a whole number of milliseconds"
                    );
                }
                (
                    g.map(|d| RefVal::Int(d.as_millis().min(u64::MAX as u128) as u64)),
                    Some(RefVal::Int(default_int(id))),
                )
            }
            Ty::Bool => (p.get::<bool>(pid).map(|_| RefVal::Bool), None),
            Ty::Bytes => (p.get::<Bytes>(pid).map(|b| RefVal::Bytes(b.to_vec())), None),
            Ty::Cid => (
                p.get::<ConnectionId>(pid).map(|c| RefVal::Cid(c.to_vec())),
                None,
            ),
            Ty::Token => (
                p.get::<ResetToken>(pid).map(|t| RefVal::Token(t.to_vec())),
                None,
            ),
            Ty::Pa => (
                p.get::<PreferredAddress>(pid).map(|a| {
                    let mut v4 = a.address_v4().ip().octets().to_vec();
                    v4.extend_from_slice(&a.address_v4().port().to_be_bytes());
                    let mut v6 = a.address_v6().ip().octets().to_vec();
                    v6.extend_from_slice(&a.address_v6().port().to_be_bytes());
                    RefVal::Pa {
                        v4,
                        v6,
                        cid: a.connection_id().to_vec(),
                        token: a.stateless_reset_token().to_vec(),
                    }
                }),
                None,
            ),
        };
        ensure!(
            ok(got.clone(), default.clone()),
            "value-mismatch",
            "{what}: {pid:?} reads {got:?}; declared instances {inst:?}, default {default:?}"
        );
    }
    Ok(())
}

// ---------------------------------------------------------------------------
// Parameters / ArcParameters state machine
// ---------------------------------------------------------------------------

struct Flag(AtomicBool);
impl futures::task::ArcWake for Flag {
    fn wake_by_ref(arc_self: &Arc<Self>) {
        arc_self.0.store(true, Ordering::SeqCst);
    }
}

fn cid_of(b: &[u8]) -> ConnectionId {
    ConnectionId::from_slice(&b[..b.len().min(20)])
}

fn model_idle(local_ms: u64, remote_ms: u64) -> Duration {
    match (local_ms, remote_ms) {
        (0, 0) => Duration::MAX,
        (0, d) | (d, 0) => Duration::from_millis(d),
        (a, b) => Duration::from_millis(a.min(b)),
    }
}

enum Parsed {
    Client(ClientParameters),
    Server(ServerParameters),
}

fn poll_remote_ready(arc: &ArcParameters) -> Poll<bool> {
    let waker = futures::task::noop_waker();
    let mut cx = Context::from_waker(&waker);
    let fut = pin!(arc.remote_ready());
    fut.poll(&mut cx).map(|r| r.is_ok())
}

fn run_case(case: &Case, ctx: &mut CaseCtx) -> Outcome {
    ensure!(case.observed_scid.len() <= 20 && case.origin_dcid.len() <= 20, "harness", "wire CIDs are at most 20 bytes");
    let sender_server = !case.local_server;
    let bytes = blob_bytes(&case.peer);
    let rp = ref_parse(&bytes, sender_server);

    ctx.class(if sender_server { "peer=server" } else { "peer=client" });
    ctx.class(if case.scid_first { "order=packet-first" } else { "order=tls-first" });
    for v in &rp.viols {
        ctx.class(format!("viol={}", v.tag));
    }
    if rp.unknown > 0 {
        ctx.class("has-unknown-id");
    }

    // connection-id clauses
    let iscid_match = rp.cid(ISCID).is_some_and(|c| c == &case.observed_scid[..]);
    let odcid_match = case.local_server || rp.cid(ODCID).is_some_and(|c| c == &case.origin_dcid[..]);
    let cid_dup = rp.duplicated(ISCID) || rp.duplicated(ODCID);
    let n_viol = rp.count(Sev::Hard)
        + rp.count(Sev::Deferred)
        + (!iscid_match && rp.cid(ISCID).is_some()) as usize
        + (!odcid_match && rp.cid(ODCID).is_some()) as usize;
    ctx.class(format!("n-viol={}", n_viol.min(3)));
    if n_viol == 1 {
        ctx.nontrivial();
    }

    // --- decoding of the peer's extension
    let parsed = if sender_server {
        check_parse::<qbase::role::Server>(&bytes, &rp, ctx, "peer(server) parameters")?.map(Parsed::Server)
    } else {
        check_parse::<qbase::role::Client>(&bytes, &rp, ctx, "peer(client) parameters")?.map(Parsed::Client)
    };

    // --- remembered parameters (client only): loaded like ClientTlsSession::load_zero_rtt does
    let mut remembered = None;
    let mut rem_ref = None;
    if !case.local_server {
        if let Some(b) = &case.remembered {
            let rb = blob_bytes(b);
            let rr = ref_parse(&rb, true);
            if let Some(p) = check_parse::<qbase::role::Server>(&rb, &rr, ctx, "remembered parameters")? {
                remembered = Some(p);
                rem_ref = Some(rr);
            }
        }
    }

    let Some(parsed) = parsed else {
        ctx.class("verdict=parse-error");
        return Ok(());
    };

    // --- 0-RTT: honoured iff no remembered limit is larger than the new one
    if let (Some(old), Some(old_ref), Parsed::Server(new)) = (&remembered, &rem_ref, &parsed) {
        let ambiguous = ZERO_RTT_LIMITS.iter().any(|id| rp.duplicated(*id) || old_ref.duplicated(*id));
        if !ambiguous {
            let reduced: Vec<u64> = ZERO_RTT_LIMITS
                .iter()
                .copied()
                .filter(|id| old_ref.int_or_default(*id) > rp.int_or_default(*id))
                .collect();
            let got = old.is_0rtt_accepted(new);
            ctx.class(format!("0rtt-reduced={}", reduced.len().min(2)));
            if reduced.len() == 1 {
                ctx.nontrivial();
            }
            ensure_eq!(
                got,
                reduced.is_empty(),
                "zero-rtt",
                "is_0rtt_accepted with reduced limits {reduced:x?}"
            );
        }
    }

    // --- the connection-level state
    let local_iscid = ConnectionId::from_slice(b"local-cid");
    let params = if case.local_server {
        let mut local = handy::server_parameters();
        local.set(ParameterId::MaxIdleTimeout, Duration::from_millis(case.local_idle_ms)).unwrap();
        local.set(ParameterId::InitialSourceConnectionId, local_iscid).unwrap();
        local.set(ParameterId::OriginalDestinationConnectionId, cid_of(&case.origin_dcid)).unwrap();
        Parameters::new_server(local)
    } else {
        let mut local = handy::client_parameters();
        local.set(ParameterId::MaxIdleTimeout, Duration::from_millis(case.local_idle_ms)).unwrap();
        local.set(ParameterId::InitialSourceConnectionId, local_iscid).unwrap();
        Parameters::new_client(local, remembered.clone(), cid_of(&case.origin_dcid))
    };
    let had_remembered = remembered.is_some();
    let arc = ArcParameters::from(params);
    let flag = Arc::new(Flag(AtomicBool::new(false)));
    {
        let mut g = arc.lock_guard().map_err(|e| Fail::new("harness", format!("{e:?}")))?;
        ensure!(!g.is_remote_params_ready(), "ready-early", "ready before anything was received");
        ensure!(!g.is_remote_params_received(), "received-early", "received before anything was received");
        ensure!(g.negotiated_max_idle_timeout().is_none(), "idle-early", "idle timeout negotiated before the peer's parameters");
        ensure_eq!(g.remembered().is_some(), had_remembered, "remembered", "remembered() before the handshake");
        let waker = futures::task::waker(flag.clone());
        let mut cx = Context::from_waker(&waker);
        ensure!(g.poll_ready(&mut cx).is_pending(), "ready-early", "poll_ready is Ready before anything was received");
    }

    let rscid_present = rp.count(Sev::Deferred) > 0;
    let cids_ok = iscid_match && odcid_match;
    let mut parsed = Some(parsed);
    let mut verdict: Option<Result<(), QuicError>> = None;
    for step in 0..2 {
        let packet_step = (step == 0) == case.scid_first;
        let completes = step == 1;
        let mut g = arc.lock_guard().map_err(|e| Fail::new("harness", format!("{e:?}")))?;
        let res = if packet_step {
            g.initial_scid_from_peer_need_equal(cid_of(&case.observed_scid))
        } else {
            let p: PeerParameters = match parsed.take().unwrap() {
                Parsed::Client(p) => p.into(),
                Parsed::Server(p) => p.into(),
            };
            g.recv_remote_params(p)
        };
        if !completes {
            ensure!(res.is_ok(), "incomplete-err", "step {step} (packet={packet_step}) failed although the information is incomplete: {res:?}");
            ensure!(!g.is_remote_params_ready(), "ready-early", "ready after only one of packet/TLS extension (packet={packet_step})");
            ensure_eq!(g.is_remote_params_received(), !packet_step, "received", "is_remote_params_received after step {step}");
            ensure!(g.negotiated_max_idle_timeout().is_none(), "idle-early", "idle timeout negotiated before authentication");
            drop(g);
            ensure!(poll_remote_ready(&arc).is_pending(), "ready-early", "remote_ready() resolved after one step");
        } else {
            verdict = Some(res);
        }
    }
    let verdict = verdict.unwrap();
    let order = if case.scid_first { "packet-first" } else { "tls-first" };
    let g = arc.lock_guard().map_err(|e| Fail::new("harness", format!("{e:?}")))?;
    let ready = g.is_remote_params_ready();
    match &verdict {
        Err(e) => {
            check_error_kind(e, "connection-id authentication")?;
            ensure!(!ready, "ready-after-error", "ready although the completing call failed: {e:?}");
            if cids_ok && !cid_dup && !rscid_present {
                fail!(
                    "cid-match-rejected",
                    "{order}: declared CIDs equal the observed ones but authentication failed: {e:?} (iscid {:02x?}, odcid {:02x?})",
                    case.observed_scid,
                    case.origin_dcid
                );
            }
            ctx.class("verdict=cid-error");
            ctx.class(format!("cid-error/{order}/{}", if sender_server { "peer=server" } else { "peer=client" }));
            drop(g);
            // what the connection does next: it enters the error state
            arc.on_conn_error(&e.clone().into());
            ensure!(arc.lock_guard().is_err(), "error-state", "parameters usable after on_conn_error");
            ensure!(poll_remote_ready(&arc) == Poll::Ready(false), "error-state", "remote_ready() does not report the error");
            return Ok(());
        }
        Ok(()) => {
            ensure!(
                ready,
                "complete-not-ready",
                "{order}: both packet and TLS extension processed without error but not ready"
            );
        }
    }
    // ready: only legitimate when every clause holds
    if !cids_ok && !cid_dup {
        let which = if !iscid_match { "iscid" } else { "odcid" };
        fail!(
            format!("cid-mismatch-accepted:{which}"),
            "{order}: ready although declared {which} differs from the observed one: declared iscid {:02x?} observed {:02x?}; declared odcid {:02x?} first dcid {:02x?}",
            rp.cid(ISCID),
            case.observed_scid,
            rp.cid(ODCID),
            case.origin_dcid
        );
    }
    if rscid_present {
        tolerate(
            ctx,
            Fail::new(
                "accepted-invalid:rscid-without-retry",
                format!("{order}: connection became ready although the server declared retry_source_connection_id {:02x?} and no Retry packet was ever processed", rp.cid(RSCID)),
            ),
        )?;
    }
    ctx.class("verdict=ready");
    ctx.class(format!("ready/{order}/{}", if sender_server { "peer=server" } else { "peer=client" }));
    ensure!(g.remembered().is_none() || !had_remembered, "remembered", "remembered parameters still present after the real ones were accepted");
    // values visible to the connection
    let remote_idle = match rp.last(IDLE) {
        Some(RefVal::Int(v)) => *v,
        _ => 0,
    };
    if !rp.duplicated(IDLE) {
        let want = model_idle(case.local_idle_ms, remote_idle);
        let got = g.negotiated_max_idle_timeout();
        ctx.class(match (case.local_idle_ms, remote_idle) {
            (0, 0) => "idle=both-zero",
            (0, _) | (_, 0) => "idle=one-zero",
            (a, b) if a == b => "idle=equal",
            (a, b) if a < b => "idle=local-smaller",
            _ => "idle=remote-smaller",
        });
        ensure_eq!(got, Some(want), "idle-timeout", "negotiated_max_idle_timeout(local {} ms, remote {remote_idle} ms)", case.local_idle_ms);
    }
    if !cid_dup {
        ensure_eq!(
            g.get_remote::<ConnectionId>(ParameterId::InitialSourceConnectionId).map(|c| c.to_vec()),
            rp.cid(ISCID).map(|c| c.to_vec()),
            "remote-value",
            "get_remote(initial_source_connection_id)"
        );
    }
    ensure_eq!(
        g.get_local::<Duration>(ParameterId::MaxIdleTimeout),
        Some(Duration::from_millis(case.local_idle_ms)),
        "local-value",
        "get_local(max_idle_timeout)"
    );
    drop(g);
    ensure!(flag.0.load(Ordering::SeqCst), "not-woken", "task waiting in poll_ready was not woken when the parameters became ready");
    ensure!(poll_remote_ready(&arc) == Poll::Ready(true), "complete-not-ready", "remote_ready() not resolved");
    {
        let mut g = arc.lock_guard().map_err(|e| Fail::new("harness", format!("{e:?}")))?;
        let waker = futures::task::noop_waker();
        let mut cx = Context::from_waker(&waker);
        ensure!(g.poll_ready(&mut cx).is_ready(), "complete-not-ready", "poll_ready not Ready");
    }
    ctx.note(json!({"blob_len": bytes.len(), "entries": rp.entries, "order": order}));
    Ok(())
}

// ---------------------------------------------------------------------------
// idle timer (qbase/src/time.rs): the *effective* timeout applied to a path
// ---------------------------------------------------------------------------

#[derive(Debug, Clone, Serialize, Deserialize)]
struct IdleCase {
    local_ms: u64,
    remote_ms: u64,
    defer_ms: u64,
}

fn run_idle(case: &IdleCase, ctx: &mut CaseCtx) -> Outcome {
    let effective = match model_idle(case.local_ms, case.remote_ms) {
        Duration::MAX => None,
        d => Some(d),
    };
    ctx.class(match (case.local_ms, case.remote_ms) {
        (0, 0) => "idle=both-zero",
        (0, _) | (_, 0) => "idle=one-zero",
        (a, b) if a == b => "idle=equal",
        (a, b) if a < b => "idle=local-smaller",
        _ => "idle=remote-smaller",
    });
    if case.local_ms != case.remote_ms {
        ctx.nontrivial();
    }
    let rt = tokio::runtime::Builder::new_current_thread()
        .enable_time()
        .start_paused(true)
        .build()
        .map_err(|e| Fail::new("harness", format!("{e}")))?;
    rt.block_on(async {
        let ms = Duration::from_millis;
        let cfg = ArcIdleConfig::new(ms(case.local_ms), ms(case.defer_ms));
        cfg.negotiate_max_idle_timeout(ms(case.remote_ms));
        let timer = cfg.timer();
        timer.on_rcvd(PacketContent::EffectivePayload);
        // silence until the deferral is over: the timer announces the start of the idle period
        tokio::time::advance(ms(case.defer_ms + 1)).await;
        let mut started = false;
        for _ in 0..64 {
            match timer.health() {
                Err(_) => fail!("idle-timer", "timed out before the idle period started"),
                Ok(Some(_)) => continue, // heartbeats, then the final ping that starts the idle period
                Ok(None) => {
                    started = true;
                    break;
                }
            }
        }
        ensure!(started, "harness", "idle period never started");
        match effective {
            None => {
                tokio::time::advance(ms(40_000_000)).await;
                ensure!(timer.health().is_ok(), "idle-timer", "timed out although both sides advertise no idle timeout");
            }
            Some(e) => {
                // the idle period began at the final ping (1 ms after the deferral)
                tokio::time::advance(e).await;
                ensure!(
                    timer.health().is_ok(),
                    "idle-timer",
                    "timed out after exactly the effective timeout {e:?} (local {} ms, remote {} ms): it must be *exceeded*",
                    case.local_ms,
                    case.remote_ms
                );
                tokio::time::advance(ms(1)).await;
                ensure!(
                    timer.health().is_err(),
                    "idle-timer",
                    "no timeout 1 ms after the effective timeout {e:?} (local {} ms, remote {} ms)",
                    case.local_ms,
                    case.remote_ms
                );
            }
        }
        Ok(())
    })
}

fn idle_strategy() -> BoxedStrategy<IdleCase> {
    let v = || {
        prop_oneof![
            2 => Just(0u64),
            3 => 1u64..=50,
            3 => 1u64..=60_000,
            1 => 1u64..=10_000_000,
        ]
    };
    (v(), v(), any::<bool>(), 0u64..=200)
        .prop_map(|(a, b, same, defer_ms)| IdleCase {
            local_ms: a,
            remote_ms: if same && b % 4 == 0 { a } else { b },
            defer_ms,
        })
        .boxed()
}

// ---------------------------------------------------------------------------
// building cases
// ---------------------------------------------------------------------------

fn cid_bytes(seed: u64, len: usize) -> Vec<u8> {
    gens::content(seed | 1, seed & 0xff, len)
}

fn pa_body(cid: &[u8], seed: u64) -> Vec<u8> {
    let mut b = gens::content(seed, 0, 24);
    b.push(cid.len() as u8);
    b.extend_from_slice(cid);
    b.extend_from_slice(&gens::content(seed, 100, 16));
    b
}

fn entry(id: u64, body: Vec<u8>) -> Entry {
    Entry { id, id_w: 0, len_w: 0, body }
}

/// values that are legal for `id`
fn valid_values(id: u64) -> &'static [u64] {
    match id {
        UDP => &[1200, 1201, 1472, 65527, 65526],
        ADE => &[0, 3, 19, 20],
        MAD => &[0, 25, 16383, 1000],
        ACIL => &[2, 3, 10, VARINT_MAX],
        STREAMS_BIDI | STREAMS_UNI => &[0, 1, 100, MAX_STREAMS - 1, MAX_STREAMS],
        IDLE => &[0, 1, 30_000, 20_000, VARINT_MAX],
        _ => &[0, 1, 63, 64, 16383, 16384, 1 << 20, (1 << 30) - 1, 1 << 30, VARINT_MAX],
    }
}

/// values that are out of range for `id` (empty when the id has no range)
fn invalid_values(id: u64) -> &'static [u64] {
    match id {
        UDP => &[1199, 0, 1],
        ADE => &[21, 22, 255, VARINT_MAX],
        MAD => &[16384, 16385, 1 << 20, VARINT_MAX],
        ACIL => &[0, 1],
        STREAMS_BIDI | STREAMS_UNI => &[MAX_STREAMS + 1, MAX_STREAMS + 2, 1 << 61, VARINT_MAX],
        _ => &[],
    }
}

const RANGED: [u64; 6] = [UDP, ADE, MAD, ACIL, STREAMS_BIDI, STREAMS_UNI];
const UNKNOWN_IDS: [u64; 8] = [0x11, 0x1b, 0x1f, 0x21, 0x3a, 0x2ab1, 31 * 1000 + 27, VARINT_MAX];

fn valid_body(id: u64, ty: Ty, sel: u16, seed: u64) -> Vec<u8> {
    match ty {
        Ty::Int | Ty::Dur => {
            let vals = valid_values(id);
            vi(vals[gens::idx(sel, vals.len())])
        }
        Ty::Bool => vec![],
        Ty::Bytes => gens::content(seed, 7, gens::idx(sel, 40)),
        Ty::Cid => cid_bytes(seed, [8, 0, 20, 1, 4][gens::idx(sel, 5)]),
        Ty::Token => gens::content(seed, 3, 16),
        Ty::Pa => pa_body(&cid_bytes(seed, [8, 1, 20][gens::idx(sel, 3)]), seed),
    }
}

fn malformed_body(ty: Ty, body: &[u8], sel: u16, seed: u64) -> Vec<u8> {
    let mut b = body.to_vec();
    match ty {
        Ty::Int | Ty::Dur => match gens::idx(sel, 5) {
            0 => b.push(0),
            1 => {
                b.pop();
            }
            2 => b.clear(),
            3 => b = vec![0x40],
            _ => b.extend_from_slice(&[1, 2, 3]),
        },
        Ty::Bool => b = vec![0; 1 + gens::idx(sel, 3)],
        Ty::Bytes => b = gens::content(seed, 1, 200),
        Ty::Cid => b = gens::content(seed, 2, [21, 22, 255, 64][gens::idx(sel, 4)]),
        Ty::Token => b = gens::content(seed, 4, [15, 17, 0, 32, 1][gens::idx(sel, 5)]),
        Ty::Pa => match gens::idx(sel, 6) {
            0 => b = pa_body(&[], seed),                    // zero-length CID
            1 => {
                b.pop();                                    // short token
            }
            2 => b.push(0),                                 // trailing byte
            3 => b.truncate(10),                            // short head
            4 => {
                b = gens::content(seed, 0, 24);             // CID length 21
                b.push(21);
                b.extend_from_slice(&gens::content(seed, 9, 21 + 16));
            }
            _ => b.truncate(24),                            // no CID length byte
        },
    }
    b
}

#[derive(Debug, Clone)]
struct Mutn {
    kind: u8,
    a: u16,
    b: u16,
    seed: u64,
}

#[derive(Debug, Clone)]
struct Knobs {
    local_server: bool,
    scid_first: bool,
    present: u32,
    rotate: u16,
    sels: Vec<u16>,
    seed: u64,
    cid_lens: (u16, u16),
    local_idle: (u16, u64),
    muts: Vec<Mutn>,
    remembered: u8,
    rem_sel: Vec<u8>,
}

struct Draft {
    entries: Vec<Entry>,
    cut: u16,
    flips: Vec<(u16, u8)>,
    observed: Vec<u8>,
    origin: Vec<u8>,
}

fn mismatch(cid: &[u8], how: usize, seed: u64) -> Vec<u8> {
    let mut c = cid.to_vec();
    match how {
        0 if !c.is_empty() => c[0] ^= 1,
        1 if !c.is_empty() => *c.last_mut().unwrap() ^= 0x80,
        2 if !c.is_empty() => {
            c.pop();
        }
        3 if c.len() < 20 => c.push(0),
        4 => c = cid_bytes(seed ^ 0x55, c.len()),
        5 => c.clear(),
        _ => {
            if c.len() < 20 {
                c.push(7)
            } else {
                c[3] ^= 0x10
            }
        }
    }
    c
}

fn apply(d: &mut Draft, m: &Mutn, sender_server: bool) {
    let legal = |id: u64| {
        if sender_server { !CLIENT_ONLY.contains(&id) } else { !SERVER_ONLY.contains(&id) }
    };
    match m.kind {
        // out-of-range value for a ranged id
        0 => {
            let id = RANGED[gens::idx(m.a, RANGED.len())];
            let vals = invalid_values(id);
            let body = vi(vals[gens::idx(m.b, vals.len())]);
            match d.entries.iter_mut().find(|e| e.id == id) {
                Some(e) => e.body = body,
                None => {
                    let at = gens::idx(m.a.wrapping_mul(7), d.entries.len() + 1);
                    d.entries.insert(at, entry(id, body));
                }
            }
        }
        // role-inappropriate id with a well-formed body
        1 => {
            let ids: &[u64] = if sender_server { &CLIENT_ONLY } else { &SERVER_ONLY };
            let id = ids[gens::idx(m.a, ids.len())];
            let (ty, _) = known(id).unwrap();
            let at = gens::idx(m.b, d.entries.len() + 1);
            d.entries.insert(at, entry(id, valid_body(id, ty, m.b, m.seed)));
        }
        // drop a mandatory id
        2 => {
            let id = if sender_server && m.a & 1 == 1 { ODCID } else { ISCID };
            d.entries.retain(|e| e.id != id);
        }
        // malform the body of one entry
        3 => {
            if !d.entries.is_empty() {
                let i = gens::idx(m.a, d.entries.len());
                if let Some((ty, _)) = known(d.entries[i].id) {
                    d.entries[i].body = malformed_body(ty, &d.entries[i].body.clone(), m.b, m.seed);
                }
            }
        }
        // malformed body for an id chosen by type (so every type is reached)
        4 => {
            let pool: Vec<u64> = KNOWN.iter().map(|k| k.0).filter(|id| legal(*id) && *id != RSCID && *id != CNAME).collect();
            let id = pool[gens::idx(m.a, pool.len())];
            let (ty, _) = known(id).unwrap();
            let good = valid_body(id, ty, m.b, m.seed);
            let body = malformed_body(ty, &good, m.b.wrapping_mul(13), m.seed);
            match d.entries.iter_mut().find(|e| e.id == id) {
                Some(e) => e.body = body,
                None => d.entries.push(entry(id, body)),
            }
        }
        // duplicate an entry (same or another legal value)
        5 => {
            if !d.entries.is_empty() {
                let i = gens::idx(m.a, d.entries.len());
                let mut e = d.entries[i].clone();
                if let (Some((ty, _)), true) = (known(e.id), m.b & 1 == 1) {
                    if e.id != ISCID && e.id != ODCID {
                        e.body = valid_body(e.id, ty, m.b, m.seed);
                    }
                }
                let at = gens::idx(m.b, d.entries.len() + 1);
                d.entries.insert(at, e);
            }
        }
        // cut the tail
        6 => d.cut = 1 + gens::upto(m.a, 5) as u16,
        // flip a byte
        7 => d.flips.push((m.a % 96, (m.b as u8) | 1)),
        // wire CIDs differing from the declared ones
        8 => d.observed = mismatch(&d.observed, gens::idx(m.a, 7), m.seed),
        9 => d.origin = mismatch(&d.origin, gens::idx(m.a, 7), m.seed),
        // unknown / reserved ids (must be ignored)
        10 => {
            let id = if m.b & 3 == 0 { 31 * (m.seed % 1_000_000) + 27 } else { UNKNOWN_IDS[gens::idx(m.a, UNKNOWN_IDS.len())] };
            let body = gens::content(m.seed, 5, gens::idx(m.b, 30));
            let at = gens::idx(m.a.wrapping_mul(3), d.entries.len() + 1);
            d.entries.insert(at, entry(id, body));
        }
        // retry_source_connection_id although no Retry happened
        11 => {
            if sender_server {
                d.entries.push(entry(RSCID, cid_bytes(m.seed, 8)));
            } else {
                d.entries.push(entry(0x11, vec![1]));
            }
        }
        // preferred address although the server uses a zero-length connection id
        12 => {
            if sender_server {
                for e in d.entries.iter_mut().filter(|e| e.id == ISCID) {
                    e.body.clear();
                }
                d.observed.clear();
                if !d.entries.iter().any(|e| e.id == PA) {
                    d.entries.push(entry(PA, pa_body(&cid_bytes(m.seed, 8), m.seed)));
                }
            }
        }
        // wider varint encodings (legal)
        13 => {
            if !d.entries.is_empty() {
                let i = gens::idx(m.a, d.entries.len());
                d.entries[i].id_w = (m.b & 3) as u8;
                d.entries[i].len_w = ((m.b >> 2) & 3) as u8;
                if m.b & 16 != 0 {
                    // the value itself in a wider encoding
                    if let Some((Ty::Int | Ty::Dur, _)) = known(d.entries[i].id) {
                        if let Some((v, n)) = get_vi(&d.entries[i].body) {
                            if n == d.entries[i].body.len() {
                                let mut o = vec![];
                                put_vi(&mut o, v, 1 + ((m.b >> 5) & 1) as u8);
                                d.entries[i].body = o;
                            }
                        }
                    }
                }
            }
        }
        // arbitrary value for an integer id (the reference decides)
        _ => {
            let ints: Vec<u64> = KNOWN.iter().filter(|k| matches!(k.1, Ty::Int | Ty::Dur)).map(|k| k.0).collect();
            let id = ints[gens::idx(m.a, ints.len())];
            let v = gens::VARINT_BOUNDS[gens::idx(m.b, gens::VARINT_BOUNDS.len())] ^ (m.seed & 1);
            match d.entries.iter_mut().find(|e| e.id == id) {
                Some(e) => e.body = vi(v),
                None => d.entries.push(entry(id, vi(v))),
            }
        }
    }
}

fn build_case(k: &Knobs) -> Case {
    let sender_server = !k.local_server;
    let lens = [8usize, 8, 0, 20, 1, 4, 19];
    let iscid = cid_bytes(k.seed, lens[gens::idx(k.cid_lens.0, lens.len())]);
    let odcid = cid_bytes(k.seed ^ 0xabcdef, [8usize, 8, 20, 9, 0][gens::idx(k.cid_lens.1, 5)]);
    let mut entries = vec![];
    for (i, (id, ty, _)) in KNOWN.iter().enumerate() {
        let legal = if sender_server { !CLIENT_ONLY.contains(id) } else { !SERVER_ONLY.contains(id) };
        if !legal || *id == RSCID {
            continue;
        }
        let body = match *id {
            ISCID => iscid.clone(),
            ODCID => odcid.clone(),
            _ => {
                if k.present & (1 << i) == 0 {
                    continue;
                }
                valid_body(*id, *ty, k.sels[i], k.seed.wrapping_add(i as u64))
            }
        };
        entries.push(entry(*id, body));
    }
    if !entries.is_empty() {
        let r = gens::idx(k.rotate, entries.len());
        entries.rotate_left(r);
    }
    // a zero-length server CID together with a preferred address is a violation of its own; keep the base valid
    if iscid.is_empty() {
        entries.retain(|e| e.id != PA);
    }
    let mut d = Draft { entries, cut: 0, flips: vec![], observed: iscid.clone(), origin: odcid.clone() };
    for m in &k.muts {
        apply(&mut d, m, sender_server);
    }
    let idle_vals = [0u64, 1, 20_000, 30_000, 29_999, 30_001, VARINT_MAX];
    let local_idle_ms = if k.local_idle.0 & 1 == 0 {
        idle_vals[gens::idx(k.local_idle.0, idle_vals.len())]
    } else {
        k.local_idle.1 & VARINT_MAX
    };
    let peer = Blob { entries: d.entries, cut: d.cut, flips: d.flips };
    // remembered parameters relative to the new ones
    let remembered = if k.local_server || k.remembered == 0 {
        None
    } else {
        let rp = ref_parse(&blob_bytes(&peer), true);
        let mut es = vec![entry(ODCID, cid_bytes(k.seed ^ 1, 8)), entry(ISCID, cid_bytes(k.seed ^ 2, 8))];
        let one = gens::idx((k.seed >> 8) as u16, ZERO_RTT_LIMITS.len());
        for (i, id) in ZERO_RTT_LIMITS.iter().enumerate() {
            let new = rp.int_or_default(*id);
            let min = if *id == ACIL { 2 } else { 0 };
            let rel = match k.remembered {
                1 => [1u8, 2][(k.rem_sel[i] & 1) as usize],      // equal or smaller
                2 => if i == one { 3 } else { [1u8, 2, 0][(k.rem_sel[i] % 3) as usize] }, // exactly one larger
                _ => k.rem_sel[i] % 4,
            };
            let old = match rel {
                0 => continue, // absent: default
                1 => new,
                2 => if new > min { if k.rem_sel[i] & 4 == 0 { new - 1 } else { min.max(new / 2) } } else { new },
                _ => if new < VARINT_MAX { if k.rem_sel[i] & 4 == 0 { new + 1 } else { new.saturating_mul(2).min(VARINT_MAX).max(new + 1) } } else { new },
            };
            // keep the remembered set itself legal
            let old = match *id {
                STREAMS_BIDI | STREAMS_UNI => old.min(MAX_STREAMS),
                _ => old,
            };
            es.push(entry(*id, vi(old)));
        }
        Some(Blob { entries: es, cut: 0, flips: vec![] })
    };
    Case {
        local_server: k.local_server,
        peer,
        observed_scid: d.observed,
        origin_dcid: d.origin,
        scid_first: k.scid_first,
        local_idle_ms,
        remembered,
    }
}

fn mut_strategy() -> BoxedStrategy<Mutn> {
    let kind = prop_oneof![
        3 => Just(0u8),
        3 => Just(1u8),
        2 => Just(2u8),
        2 => Just(3u8),
        3 => Just(4u8),
        1 => Just(5u8),
        1 => Just(6u8),
        1 => Just(7u8),
        3 => Just(8u8),
        2 => Just(9u8),
        2 => Just(10u8),
        1 => Just(11u8),
        1 => Just(12u8),
        2 => Just(13u8),
        2 => Just(14u8),
    ];
    (kind, any::<u16>(), any::<u16>(), any::<u64>())
        .prop_map(|(kind, a, b, seed)| Mutn { kind, a, b, seed })
        .boxed()
}

fn case_strategy() -> BoxedStrategy<Case> {
    let muts = prop_oneof![
        3 => proptest::collection::vec(mut_strategy(), 0..=0),
        8 => proptest::collection::vec(mut_strategy(), 1..=1),
        3 => proptest::collection::vec(mut_strategy(), 2..=2),
        1 => proptest::collection::vec(mut_strategy(), 3..=5),
    ];
    let present = prop_oneof![1 => Just(0u32), 1 => Just(u32::MAX), 3 => any::<u32>()];
    (
        (any::<bool>(), any::<bool>(), present, any::<u16>()),
        proptest::collection::vec(any::<u16>(), 20),
        any::<u64>(),
        (any::<u16>(), any::<u16>()),
        (any::<u16>(), gens::varint()),
        muts,
        prop_oneof![3 => Just(0u8), 2 => Just(1u8), 2 => Just(2u8), 1 => Just(3u8)],
        proptest::collection::vec(any::<u8>(), 8),
    )
        .prop_map(
            |((local_server, scid_first, present, rotate), sels, seed, cid_lens, local_idle, muts, remembered, rem_sel)| {
                build_case(&Knobs {
                    local_server,
                    scid_first,
                    present,
                    rotate,
                    sels,
                    seed,
                    cid_lens,
                    local_idle,
                    muts,
                    remembered,
                    rem_sel,
                })
            },
        )
        .boxed()
}

/// Unstructured input: arbitrary bytes as one oversized "entry list" is not expressible, so the
/// raw stage feeds short random id/body pairs with random flips and cuts.
fn raw_strategy() -> BoxedStrategy<Case> {
    let id = prop_oneof![
        6 => proptest::sample::select(KNOWN.iter().map(|k| k.0).collect::<Vec<_>>()),
        1 => gens::varint(),
        1 => 0u64..64,
    ];
    let ent = (id, 0u8..3, 0u8..3, gens::bytes_vec(48)).prop_map(|(id, id_w, len_w, body)| Entry { id, id_w, len_w, body });
    (
        any::<bool>(),
        any::<bool>(),
        proptest::collection::vec(ent, 0..6),
        prop_oneof![3 => Just(0u16), 1 => 0u16..12],
        proptest::collection::vec((0u16..64, 1u8..=255), 0..3),
        gens::bytes_vec(20),
        gens::bytes_vec(20),
        gens::varint(),
    )
        .prop_map(|(local_server, scid_first, mut entries, cut, flips, iscid, odcid, local_idle_ms)| {
            // mandatory ids are usually present so that the interesting part is reached
            if !entries.iter().any(|e| e.id == ISCID) && local_idle_ms % 5 != 0 {
                entries.push(entry(ISCID, iscid.clone()));
            }
            if !local_server && !entries.iter().any(|e| e.id == ODCID) && local_idle_ms % 7 != 0 {
                entries.insert(0, entry(ODCID, odcid.clone()));
            }
            Case {
                local_server,
                peer: Blob { entries, cut, flips },
                observed_scid: iscid,
                origin_dcid: odcid,
                scid_first,
                local_idle_ms,
                remembered: None,
            }
        })
        .boxed()
}

// ---------------------------------------------------------------------------
// exhaustive: every single-clause deviation x role x arrival order
// ---------------------------------------------------------------------------

fn base_sets(sender_server: bool) -> Vec<(Vec<Entry>, Vec<u8>, Vec<u8>)> {
    let iscid = cid_bytes(11, 8);
    let odcid = cid_bytes(12, 9);
    let mut minimal = vec![];
    if sender_server {
        minimal.push(entry(ODCID, odcid.clone()));
    }
    minimal.push(entry(ISCID, iscid.clone()));
    let mut full = vec![];
    for (i, (id, ty, _)) in KNOWN.iter().enumerate() {
        let legal = if sender_server { !CLIENT_ONLY.contains(id) } else { !SERVER_ONLY.contains(id) };
        if !legal || *id == RSCID {
            continue;
        }
        let body = match *id {
            ISCID => iscid.clone(),
            ODCID => odcid.clone(),
            _ => valid_body(*id, *ty, 0x5000, 40 + i as u64),
        };
        full.push(entry(*id, body));
    }
    vec![(minimal, iscid.clone(), odcid.clone()), (full, iscid, odcid)]
}

fn single_deviations(base: &[Entry], iscid: &[u8], odcid: &[u8], sender_server: bool) -> Vec<(Vec<Entry>, u16, Vec<u8>, Vec<u8>)> {
    let mut out: Vec<(Vec<Entry>, u16, Vec<u8>, Vec<u8>)> = vec![];
    let mut push = |es: Vec<Entry>, cut: u16, obs: &[u8], org: &[u8]| out.push((es, cut, obs.to_vec(), org.to_vec()));
    let with = |id: u64, body: Vec<u8>| -> Vec<Entry> {
        let mut es = base.to_vec();
        match es.iter_mut().find(|e| e.id == id) {
            Some(e) => e.body = body,
            None => es.push(entry(id, body)),
        }
        es
    };
    push(base.to_vec(), 0, iscid, odcid);
    // values at and beyond every bound, for every integer id
    for (id, ty, _) in KNOWN {
        if !matches!(ty, Ty::Int | Ty::Dur) {
            continue;
        }
        for v in valid_values(id).iter().chain(invalid_values(id)).chain(&[65528u64, 1 << 32]) {
            push(with(id, vi(*v)), 0, iscid, odcid);
            let mut wide = vec![];
            put_vi(&mut wide, *v, 1);
            push(with(id, wide), 0, iscid, odcid);
        }
    }
    // every id of the other role, at the front and at the end
    let foreign: &[u64] = if sender_server { &CLIENT_ONLY } else { &SERVER_ONLY };
    for id in foreign {
        let (ty, _) = known(*id).unwrap();
        let mut es = base.to_vec();
        es.push(entry(*id, valid_body(*id, ty, 0, 77)));
        push(es, 0, iscid, odcid);
        let mut es = base.to_vec();
        es.insert(0, entry(*id, valid_body(*id, ty, 0, 77)));
        push(es, 0, iscid, odcid);
    }
    // every mandatory id missing
    for id in [ISCID, ODCID] {
        let es: Vec<Entry> = base.iter().filter(|e| e.id != id).cloned().collect();
        if es.len() != base.len() {
            push(es, 0, iscid, odcid);
        }
    }
    // every legal id with every malformation of its type, and duplicated
    for (id, ty, _) in KNOWN {
        let legal = if sender_server { !CLIENT_ONLY.contains(&id) } else { !SERVER_ONLY.contains(&id) };
        if !legal {
            continue;
        }
        let good = match id {
            ISCID => iscid.to_vec(),
            ODCID => odcid.to_vec(),
            _ => valid_body(id, ty, 0, 90),
        };
        if id != RSCID {
            for k in 0..6u32 {
                let sel = ((k * 65536 + 32768) / 6) as u16;
                push(with(id, malformed_body(ty, &good, sel, 91)), 0, iscid, odcid);
            }
            let mut es = with(id, good.clone());
            es.push(entry(id, good.clone()));
            push(es, 0, iscid, odcid);
        } else {
            push(with(id, good), 0, iscid, odcid);
        }
    }
    // unknown ids, with and without body, front and end
    for id in UNKNOWN_IDS {
        for body in [vec![], vec![0xff; 3], gens::content(id, 0, 70)] {
            let mut es = base.to_vec();
            es.push(entry(id, body.clone()));
            push(es, 0, iscid, odcid);
            let mut es = base.to_vec();
            es.insert(0, entry(id, body));
            push(es, 0, iscid, odcid);
        }
    }
    // truncation of the extension
    for cut in 1..=4u16 {
        push(base.to_vec(), cut, iscid, odcid);
    }
    // wider encodings of id and length
    for w in 1..=3u8 {
        let mut es = base.to_vec();
        for e in &mut es {
            e.id_w = w;
            e.len_w = 3 - w;
        }
        push(es, 0, iscid, odcid);
    }
    // wire connection ids
    for how in 0..7 {
        push(base.to_vec(), 0, &mismatch(iscid, how, 5), odcid);
        if sender_server {
            push(base.to_vec(), 0, iscid, &mismatch(odcid, how, 6));
        }
    }
    // zero-length and maximal connection ids (matching)
    for len in [0usize, 1, 20] {
        let c = cid_bytes(33, len);
        let es: Vec<Entry> = with(ISCID, c.clone()).into_iter().filter(|e| !(len == 0 && e.id == PA)).collect();
        push(es, 0, &c, odcid);
        if sender_server {
            push(with(ODCID, c.clone()), 0, iscid, &c);
        }
    }
    if sender_server {
        // preferred address with a zero-length server connection id
        let mut es = with(ISCID, vec![]);
        if !es.iter().any(|e| e.id == PA) {
            es.push(entry(PA, pa_body(&cid_bytes(3, 8), 3)));
        }
        push(es, 0, &[], odcid);
    }
    out
}

fn main() {
    let mut check = Check::from_env("C18", "exploration");
    // the property promises termination ("decoding terminates ... never loops without consuming
    // input"): a case that burns 30 s of CPU on an input of at most a datagram (typical: microseconds)
    // is reported as a violation with the input as replay file
    check.hang_budget(30, true);
    check.assume("termination is decided by a CPU budget of 30 s per case on the case's own thread (typical case: microseconds)");
    let _ = LISTED.set(vcore::load_known_findings("C18").into_iter().map(|k| k.signature).collect());
    check.rule(
        "case = wire image of the peer's transport-parameter extension (entries id/encoding/body, tail cut, byte flips) built from a \
         generated description (valid base set per role + 0..5 deviations: out-of-range value, id of the other role, mandatory id missing, \
         malformed body per value type, duplicate, truncation, byte flip, unknown id, retry_scid, zero-length-cid rules, wider varints), \
         the connection ids observed on the wire (equal / one byte different / other length), local role, arrival order, local idle timeout, \
         remembered set (per limit smaller/equal/larger/absent). A reference decoder lists the violated clauses of RFC 9000 §7.3/§7.4/§18.2. \
         non-trivial = exactly one violated clause in total (decoder clause or connection-id clause), or exactly one remembered limit above \
         the new one; idle-timer stage: the two advertised values differ. distinct = by hash of the serialised case.",
    );
    check.assume("the client never processes a Retry packet (qinterface drops them), so retry_source_connection_id is never legitimate");
    check.assume("duplicate parameters and max_udp_payload_size > 65527 may be accepted or rejected (RFC: SHOULD / not stated)");
    check.assume("client_name (0xffee) is the library's own extension: legal from a client only, as the library declares");
    check.assume("recv_remote_params and initial_scid_from_peer_need_equal are each called once per connection, as the callers in qconnection do");
    check.assume("idle-timer stage: IdleTimer's own deferral semantics are taken as given; only the effective timeout value is judged");

    // ---- exhaustive: single-clause deviation x role x arrival order
    check.exhaustive::<Case, _>("exhaustive-single-clause", true, |e| {
        for local_server in [false, true] {
            let sender_server = !local_server;
            for (base, iscid, odcid) in base_sets(sender_server) {
                for (entries, cut, obs, org) in single_deviations(&base, &iscid, &odcid, sender_server) {
                    for scid_first in [true, false] {
                        for local_idle_ms in [0u64, 25_000] {
                            let case = Case {
                                local_server,
                                peer: Blob { entries: entries.clone(), cut, flips: vec![] },
                                observed_scid: obs.clone(),
                                origin_dcid: org.clone(),
                                scid_first,
                                local_idle_ms,
                                remembered: None,
                            };
                            e.case(&case, run_case);
                            if e.stopped() {
                                return;
                            }
                        }
                    }
                }
            }
        }
    });

    // ---- exhaustive: every remembered limit absent / smaller / equal / larger than the new one, one at a time
    check.exhaustive::<Case, _>("exhaustive-zero-rtt", true, |e| {
        let iscid = cid_bytes(21, 8);
        let odcid = cid_bytes(22, 8);
        for new_explicit in [true, false] {
            let new_val = |id: u64| if new_explicit { if id == ACIL { 10 } else { 100 } } else { default_int(id) };
            let mut new_entries = vec![entry(ODCID, odcid.clone()), entry(ISCID, iscid.clone())];
            if new_explicit {
                for id in ZERO_RTT_LIMITS {
                    new_entries.push(entry(id, vi(new_val(id))));
                }
            }
            for k in 0..ZERO_RTT_LIMITS.len() {
                for rel in 0..4u8 {
                    let mut old = vec![entry(ODCID, cid_bytes(23, 8)), entry(ISCID, cid_bytes(24, 8))];
                    for (j, other) in ZERO_RTT_LIMITS.iter().enumerate() {
                        let v = new_val(*other);
                        let min = if *other == ACIL { 2 } else { 0 };
                        if j != k {
                            if new_explicit {
                                old.push(entry(*other, vi(v)));
                            }
                            continue;
                        }
                        match rel {
                            0 => {}
                            1 => old.push(entry(*other, vi(v))),
                            2 if v > min => old.push(entry(*other, vi(v - 1))),
                            2 => {}
                            _ => old.push(entry(*other, vi(v + 1))),
                        }
                    }
                    for scid_first in [true, false] {
                        let case = Case {
                            local_server: false,
                            peer: Blob { entries: new_entries.clone(), cut: 0, flips: vec![] },
                            observed_scid: iscid.clone(),
                            origin_dcid: odcid.clone(),
                            scid_first,
                            local_idle_ms: 30_000,
                            remembered: Some(Blob { entries: old.clone(), cut: 0, flips: vec![] }),
                        };
                        e.case(&case, run_case);
                        if e.stopped() {
                            return;
                        }
                    }
                }
            }
        }
    });

    // ---- random model-based stages
    let n = check.pick(700_000, 12_000_000);
    check.stage("random-sets", n, 16, case_strategy, run_case);
    let n = check.pick(200_000, 4_000_000);
    check.stage("raw-entries", n, 16, raw_strategy, run_case);
    let n = check.pick(30_000, 600_000);
    check.stage("idle-timer", n, 16, idle_strategy, run_idle);
    check.finish();
}
