//! vcore — shared runner for the gm-quic property checks.
//!
//! A *check* (one binary per property) is a list of *stages*. A stage is either
//! a proptest strategy + oracle closure (random, shrinkable), or an exhaustive
//! enumerator. The runner owns: seeds, sharding over threads, case counting,
//! classification, non-trivial counting (distinct by hash), sample capture,
//! shrinking to the *same* failure signature, replay files, known-finding
//! matching and the evidence file.
//!
//! Every random choice comes from proptest's generators, seeded from
//! `VERIF_SEED` ⊕ hash(stage name) ⊕ shard index; nothing reads the wall clock
//! except to report `wall_s`.

use std::{
    any::Any,
    cell::RefCell,
    collections::{BTreeMap, BTreeSet, HashSet},
    fmt::Debug,
    hash::{Hash, Hasher},
    panic::{AssertUnwindSafe, catch_unwind},
    path::{Path, PathBuf},
    sync::{
        Arc, Mutex,
        atomic::{AtomicBool, AtomicU64, Ordering},
    },
    time::Instant,
};

use proptest::{
    strategy::Strategy,
    test_runner::{Config, RngSeed, TestCaseError, TestError, TestRunner},
};
use serde::{Serialize, de::DeserializeOwned};
use serde_json::{Value, json};

pub mod alloc;
pub mod gens;
pub mod watch;

/// Root of the verification tree (`/verif`; overridable for scratch sandboxes).
pub fn verif_root() -> String {
    std::env::var("VERIF_ROOT").unwrap_or_else(|_| "/verif".to_string())
}

// ---------------------------------------------------------------------------
// failure description
// ---------------------------------------------------------------------------

/// An oracle failure. `signature` names the *class* of the failure (used for
/// shrinking to the same root cause and for known-finding matching); `msg` is
/// the human-readable detail.
#[derive(Debug, Clone)]
pub struct Fail {
    pub signature: String,
    pub msg: String,
}

impl Fail {
    pub fn new(signature: impl Into<String>, msg: impl Into<String>) -> Self {
        Self {
            signature: signature.into(),
            msg: msg.into(),
        }
    }
}

pub type Outcome = Result<(), Fail>;

#[macro_export]
macro_rules! fail {
    ($sig:expr, $($arg:tt)*) => {
        return Err($crate::Fail::new($sig, format!($($arg)*)))
    };
}

#[macro_export]
macro_rules! ensure {
    ($cond:expr, $sig:expr, $($arg:tt)*) => {
        if !($cond) {
            return Err($crate::Fail::new($sig, format!($($arg)*)));
        }
    };
}

#[macro_export]
macro_rules! ensure_eq {
    ($a:expr, $b:expr, $sig:expr, $($arg:tt)*) => {{
        let (a, b) = (&$a, &$b);
        if a != b {
            return Err($crate::Fail::new(
                $sig,
                format!("{}: left={:?} right={:?}", format!($($arg)*), a, b),
            ));
        }
    }};
}

// ---------------------------------------------------------------------------
// panic capture
// ---------------------------------------------------------------------------

thread_local! {
    static LAST_PANIC: RefCell<Option<(String, String)>> = const { RefCell::new(None) };
    static QUIET: RefCell<bool> = const { RefCell::new(false) };
    static THREAD_PANICS: RefCell<Vec<(String, String)>> = const { RefCell::new(Vec::new()) };
}

/// Drain the panics recorded on *this thread* since the last call (includes
/// panics swallowed by tasks of a current-thread runtime driven on this thread).
pub fn take_thread_panics() -> Vec<(String, String)> {
    THREAD_PANICS.with(|p| std::mem::take(&mut *p.borrow_mut()))
}

/// Process-wide count of panics seen by the hook (including ones swallowed by
/// spawned tasks); used by end-to-end checks.
pub static PANIC_COUNT: AtomicU64 = AtomicU64::new(0);
static GLOBAL_LAST_PANIC: Mutex<Option<(String, String)>> = Mutex::new(None);

pub fn install_panic_hook() {
    std::panic::set_hook(Box::new(|info| {
        let loc = info
            .location()
            .map(|l| {
                let f = l.file();
                // make the location independent of where the registry/repo lives
                let f = f.rsplit_once("/repo/").map(|x| x.1).unwrap_or(f);
                format!("{}:{}", f, l.line())
            })
            .unwrap_or_else(|| "?".into());
        let msg = if let Some(s) = info.payload().downcast_ref::<&str>() {
            s.to_string()
        } else if let Some(s) = info.payload().downcast_ref::<String>() {
            s.clone()
        } else {
            "<non-string panic>".into()
        };
        PANIC_COUNT.fetch_add(1, Ordering::SeqCst);
        *GLOBAL_LAST_PANIC.lock().unwrap() = Some((loc.clone(), msg.clone()));
        LAST_PANIC.with(|p| *p.borrow_mut() = Some((loc.clone(), msg.clone())));
        let _ = THREAD_PANICS.try_with(|p| {
            if let Ok(mut v) = p.try_borrow_mut() {
                if v.len() < 64 {
                    v.push((loc.clone(), msg.clone()));
                }
            }
        });
        if std::env::var_os("VERIF_SHOW_PANICS").is_some() {
            eprintln!("[panic] {loc}: {msg}");
        }
    }));
}

pub fn take_global_panic() -> Option<(String, String)> {
    GLOBAL_LAST_PANIC.lock().unwrap().take()
}

fn panic_to_fail(payload: Box<dyn Any + Send>) -> Fail {
    let (loc, msg) = LAST_PANIC
        .with(|p| p.borrow_mut().take())
        .unwrap_or_else(|| {
            let m = if let Some(s) = payload.downcast_ref::<&str>() {
                s.to_string()
            } else if let Some(s) = payload.downcast_ref::<String>() {
                s.clone()
            } else {
                "<non-string panic>".into()
            };
            ("?".into(), m)
        });
    Fail::new(format!("panic@{loc}"), format!("panicked at {loc}: {msg}"))
}

/// Run `f`, turning a panic into a `Fail` whose signature is the panic
/// location (`panic@<file>:<line>`).
pub fn guarded<R>(f: impl FnOnce() -> Result<R, Fail>) -> Result<R, Fail> {
    match catch_unwind(AssertUnwindSafe(f)) {
        Ok(r) => r,
        Err(p) => Err(panic_to_fail(p)),
    }
}

// ---------------------------------------------------------------------------
// known findings
// ---------------------------------------------------------------------------

#[derive(Debug, Clone)]
pub struct KnownFinding {
    pub property: String,
    pub signature: String,
    pub description: String,
}

pub fn load_known_findings(id: &str) -> Vec<KnownFinding> {
    let path = format!("{}/known-findings.jsonl", verif_root());
    let Ok(text) = std::fs::read_to_string(path) else {
        return vec![];
    };
    let mut out = vec![];
    for line in text.lines() {
        let line = line.trim();
        if line.is_empty() || line.starts_with('#') || line.starts_with("fixed:") {
            continue;
        }
        let Ok(v) = serde_json::from_str::<Value>(line) else {
            continue;
        };
        if v["property"].as_str() != Some(id) {
            continue;
        }
        if v["status"].as_str() == Some("fixed") {
            continue;
        }
        out.push(KnownFinding {
            property: id.to_string(),
            signature: v["signature"].as_str().unwrap_or("").to_string(),
            description: v["description"].as_str().unwrap_or("").to_string(),
        });
    }
    out
}

// ---------------------------------------------------------------------------
// per-case context handed to the oracle
// ---------------------------------------------------------------------------

/// Collected by the oracle while it runs one case. Only recorded for cases of
/// the generation phase (not for shrink re-executions).
#[derive(Default, Debug)]
pub struct CaseCtx {
    pub classes: Vec<String>,
    pub nontrivial: bool,
    pub note: Option<Value>,
    /// failures that match a known finding and were tolerated inside the case
    pub known: Vec<Fail>,
}

impl CaseCtx {
    pub fn class(&mut self, c: impl Into<String>) {
        self.classes.push(c.into());
    }
    pub fn nontrivial(&mut self) {
        self.nontrivial = true;
    }
    pub fn note(&mut self, v: Value) {
        self.note = Some(v);
    }
}

// ---------------------------------------------------------------------------
// the check
// ---------------------------------------------------------------------------

#[derive(Clone, Copy, PartialEq, Eq, Debug)]
pub enum Tier {
    Quick,
    Thorough,
}

#[derive(Default)]
struct StageStats {
    evaluations: u64,
    nontrivial: HashSet<u64>,
    classes: BTreeMap<String, u64>,
    samples: Vec<Value>,
    exhaustive: bool,
}

struct Violation {
    stage: String,
    fail: Fail,
    replay: PathBuf,
}

pub struct Check {
    pub id: String,
    pub tier: Tier,
    pub seed: u64,
    pub level: String,
    rule: String,
    assumptions: Vec<String>,
    start: Instant,
    known: Vec<KnownFinding>,
    known_hits: BTreeMap<String, u64>,
    stages: BTreeMap<String, StageStats>,
    stage_order: Vec<String>,
    violations: Vec<Violation>,
    extra: BTreeMap<String, Value>,
    replay_mode: Option<PathBuf>,
    replay_ran: bool,
    exhaustive_all: bool,
    only_stage: Option<String>,
    /// proptest shrink budget per failing shard (lower it for expensive cases)
    pub max_shrink_iters: u32,
}

fn hash_str(s: &str) -> u64 {
    // FNV-1a, stable across runs and platforms
    let mut h: u64 = 0xcbf29ce484222325;
    for b in s.as_bytes() {
        h ^= *b as u64;
        h = h.wrapping_mul(0x100000001b3);
    }
    h
}

pub fn hash_value<T: Hash>(t: &T) -> u64 {
    struct Fnv(u64);
    impl Hasher for Fnv {
        fn finish(&self) -> u64 {
            self.0
        }
        fn write(&mut self, bytes: &[u8]) {
            for b in bytes {
                self.0 ^= *b as u64;
                self.0 = self.0.wrapping_mul(0x100000001b3);
            }
        }
    }
    let mut h = Fnv(0xcbf29ce484222325);
    t.hash(&mut h);
    h.finish()
}

impl Check {
    /// Parse `argv`: `<quick|thorough>` or `replay <file>`; `VERIF_SEED` from env.
    pub fn from_env(id: &str, level: &str) -> Self {
        install_panic_hook();
        let args: Vec<String> = std::env::args().skip(1).collect();
        let mut tier = match std::env::var("VERIF_TIER").as_deref() {
            Ok("thorough") => Tier::Thorough,
            _ => Tier::Quick,
        };
        let mut replay_mode = None;
        let mut only_stage = std::env::var("VERIF_STAGE").ok();
        let mut i = 0;
        while i < args.len() {
            match args[i].as_str() {
                "quick" => tier = Tier::Quick,
                "thorough" => tier = Tier::Thorough,
                "replay" => {
                    i += 1;
                    replay_mode = Some(PathBuf::from(
                        args.get(i).expect("replay needs a file argument"),
                    ));
                }
                "--stage" => {
                    i += 1;
                    only_stage = args.get(i).cloned();
                }
                other => {
                    eprintln!("unknown argument {other}");
                    std::process::exit(2);
                }
            }
            i += 1;
        }
        let seed = std::env::var("VERIF_SEED")
            .ok()
            .and_then(|s| s.trim().parse::<u64>().ok().or_else(|| {
                // accept negative / huge values by hashing them
                Some(hash_str(s.trim()))
            }))
            .unwrap_or(0);
        watch::start(
            id,
            seed,
            PathBuf::from(format!("{}/replays/{}/found", verif_root(), id)),
            watch::Policy { cpu: std::time::Duration::from_secs(900), violation: false },
        );
        Self {
            id: id.to_string(),
            tier,
            seed,
            level: level.to_string(),
            rule: String::new(),
            assumptions: vec![],
            start: Instant::now(),
            known: load_known_findings(id),
            known_hits: BTreeMap::new(),
            stages: BTreeMap::new(),
            stage_order: vec![],
            violations: vec![],
            extra: BTreeMap::new(),
            replay_mode,
            replay_ran: false,
            exhaustive_all: false,
            only_stage,
            max_shrink_iters: 3000,
        }
    }

    /// CPU budget of a single case (see `watch`). `violation`: the property itself promises
    /// termination, so exceeding the budget is a violation; otherwise it is inconclusive (exit 2).
    pub fn hang_budget(&mut self, cpu_secs: u64, violation: bool) {
        watch::set_policy(watch::Policy { cpu: std::time::Duration::from_secs(cpu_secs), violation });
    }

    pub fn rule(&mut self, r: &str) {
        self.rule = r.to_string();
    }
    pub fn assume(&mut self, a: &str) {
        self.assumptions.push(a.to_string());
    }
    pub fn extra(&mut self, k: &str, v: Value) {
        self.extra.insert(k.to_string(), v);
    }
    pub fn is_replay(&self) -> bool {
        self.replay_mode.is_some()
    }
    pub fn quick(&self) -> bool {
        self.tier == Tier::Quick
    }
    /// `q` in the quick tier, `t` in the thorough tier (scaled by VERIF_SCALE %).
    pub fn pick(&self, q: u64, t: u64) -> u64 {
        let n = if self.quick() { q } else { t };
        match std::env::var("VERIF_SCALE").ok().and_then(|s| s.parse::<u64>().ok()) {
            Some(pct) => (n * pct / 100).max(1),
            None => n,
        }
    }

    fn is_known(&self, sig: &str) -> Option<&KnownFinding> {
        self.known.iter().find(|k| sig_matches(&k.signature, sig))
    }

    fn stage_enabled(&self, name: &str) -> bool {
        match &self.only_stage {
            Some(s) => s == name,
            None => true,
        }
    }

    fn stage_seed(&self, name: &str, shard: u64) -> u64 {
        // VERIF_ROUND: the thorough tier of memory-hungry checks is split over several processes
        // (bin/check), each exploring a different part of the same seed's space
        let round = std::env::var("VERIF_ROUND").unwrap_or_default();
        let mut h = hash_str(&format!("{}/{}/{}/{}", self.id, name, shard, round));
        h ^= self.seed.wrapping_mul(0x9e3779b97f4a7c15);
        h = (h ^ (h >> 31)).wrapping_mul(0xbf58476d1ce4e5b9);
        h ^ (h >> 29)
    }

    fn replay_dir(&self) -> PathBuf {
        PathBuf::from(format!("{}/replays/{}", verif_root(), self.id))
    }

    fn write_replay<C: Serialize>(&self, stage: &str, fail: &Fail, case: &C) -> PathBuf {
        // New failures found at run time go to replays/<id>/found/ (not committed
        // automatically); committed regression inputs live in replays/<id>/.
        let dir = self.replay_dir().join("found");
        let _ = std::fs::create_dir_all(&dir);
        let body = json!({
            "property": self.id,
            "stage": stage,
            "signature": fail.signature,
            "message": fail.msg,
            "seed": self.seed,
            "case": case,
        });
        let text = serde_json::to_string_pretty(&body).unwrap();
        let name = format!(
            "{}-{:016x}.json",
            sanitize(&fail.signature),
            hash_str(&serde_json::to_string(case).unwrap_or_default())
        );
        let path = dir.join(name);
        let _ = std::fs::write(&path, text);
        path
    }

    /// Handle a failing case (already shrunk): known finding → count; else violation.
    fn report<C: Serialize>(&mut self, stage: &str, fail: Fail, case: &C) {
        if let Some(k) = self.is_known(&fail.signature).cloned() {
            let n = self.known_hits.entry(k.signature.clone()).or_insert(0);
            if *n == 0 {
                println!(
                    "KNOWN-FINDING: property={} {} [{}] e.g. {}",
                    self.id, k.description, k.signature, fail.msg
                );
            }
            *n += 1;
            return;
        }
        let replay = self.write_replay(stage, &fail, case);
        println!(
            "VIOLATION property={} replay={} stage={} signature={} :: {}",
            self.id,
            replay.display(),
            stage,
            fail.signature,
            truncate(&fail.msg, 600)
        );
        self.violations.push(Violation {
            stage: stage.to_string(),
            fail,
            replay,
        });
    }

    /// Record tolerated known-finding hits reported from inside a case.
    fn absorb_known(&mut self, fails: &[Fail]) {
        for f in fails {
            if let Some(k) = self.is_known(&f.signature).cloned() {
                let n = self.known_hits.entry(k.signature.clone()).or_insert(0);
                if *n == 0 {
                    println!(
                        "KNOWN-FINDING: property={} {} [{}] e.g. {}",
                        self.id, k.description, k.signature, f.msg
                    );
                }
                *n += 1;
            }
        }
    }

    /// Random stage driven by proptest. `cases` are split over `shards`
    /// independent runners (threads); every shard shrinks its own first
    /// failure to a minimal case with the *same signature*.
    ///
    /// Failures whose signature is listed in known-findings are counted and
    /// the case is treated as passing so the search continues behind them.
    pub fn stage<C, S, G, F>(&mut self, name: &str, cases: u64, shards: u64, strategy: G, oracle: F)
    where
        C: Debug + Clone + Serialize + DeserializeOwned + Send + 'static,
        S: Strategy<Value = C>,
        G: Fn() -> S + Sync,
        F: Fn(&C, &mut CaseCtx) -> Outcome + Send + Sync + 'static,
    {
        self.register_stage(name);
        // --- replay mode: run only the matching stage on the stored case
        if let Some(path) = self.replay_mode.clone() {
            let Some((stage, case)) = load_replay::<C>(&path) else {
                return;
            };
            if stage != name {
                return;
            }
            self.replay_ran = true;
            let mut ctx = CaseCtx::default();
            let _w = watch::enter(name, &case);
            let r = guarded(|| oracle(&case, &mut ctx));
            let sigs: Vec<String> = self.known.iter().map(|k| k.signature.clone()).collect();
            let r = promote_unlisted(r, &ctx, &sigs);
            self.absorb_known(&ctx.known);
            self.stages.get_mut(name).unwrap().evaluations += 1;
            match r {
                Ok(()) => println!("replay {}: case passes", path.display()),
                Err(f) => self.report(name, f, &case),
            }
            return;
        }
        if !self.stage_enabled(name) {
            return;
        }
        // --- committed regression inputs for this stage first
        self.run_committed_replays(name, &oracle);

        let shards = shards.max(1).min(cases.max(1));
        let per = cases / shards;
        let known_sigs: Vec<String> = self.known.iter().map(|k| k.signature.clone()).collect();
        let results: Vec<ShardResult<C>> = std::thread::scope(|scope| {
            let mut handles = vec![];
            for shard in 0..shards {
                let n = per + if shard < cases % shards { 1 } else { 0 };
                let seed = self.stage_seed(name, shard);
                let strategy = &strategy;
                let oracle = &oracle;
                let known_sigs = &known_sigs;
                let shrink = self.max_shrink_iters;
                handles.push(
                    std::thread::Builder::new()
                        .stack_size(64 << 20)
                        .spawn_scoped(scope, move || {
                            run_shard(name, n, seed, strategy(), oracle, known_sigs, shrink)
                        })
                        .unwrap(),
                );
            }
            handles.into_iter().map(|h| h.join().unwrap()).collect()
        });
        for r in results {
            let st = self.stages.get_mut(name).unwrap();
            st.evaluations += r.evaluations;
            st.nontrivial.extend(r.nontrivial);
            for (k, v) in r.classes {
                *st.classes.entry(k).or_insert(0) += v;
            }
            for s in r.samples {
                if st.samples.len() < 6 {
                    st.samples.push(s);
                }
            }
            for (sig, (n, msg)) in r.known_hits {
                if let Some(k) = self.is_known(&sig).cloned() {
                    let e = self.known_hits.entry(k.signature.clone()).or_insert(0);
                    if *e == 0 {
                        println!(
                            "KNOWN-FINDING: property={} {} [{}] e.g. {}",
                            self.id, k.description, k.signature, msg
                        );
                    }
                    *e += n;
                }
            }
            if let Some((fail, case)) = r.failure {
                // de-duplicate identical signatures across shards
                if !self
                    .violations
                    .iter()
                    .any(|v| v.stage == name && v.fail.signature == fail.signature)
                {
                    self.report(name, fail, &case);
                }
            }
        }
    }

    fn register_stage(&mut self, name: &str) {
        if !self.stages.contains_key(name) {
            self.stages.insert(name.to_string(), StageStats::default());
            self.stage_order.push(name.to_string());
        }
    }

    fn run_committed_replays<C, F>(&mut self, name: &str, oracle: &F)
    where
        C: Debug + Clone + Serialize + DeserializeOwned + Send + 'static,
        F: Fn(&C, &mut CaseCtx) -> Outcome,
    {
        let dir = self.replay_dir();
        let Ok(rd) = std::fs::read_dir(&dir) else {
            return;
        };
        let mut files: Vec<PathBuf> = rd
            .filter_map(|e| e.ok())
            .map(|e| e.path())
            .filter(|p| p.extension().map(|e| e == "json").unwrap_or(false))
            .collect();
        files.sort();
        for path in files {
            let Some((stage, case)) = load_replay::<C>(&path) else {
                continue;
            };
            if stage != name {
                continue;
            }
            let mut ctx = CaseCtx::default();
            let _w = watch::enter(name, &case);
            let r = guarded(|| oracle(&case, &mut ctx));
            drop(_w);
            let sigs: Vec<String> = self.known.iter().map(|k| k.signature.clone()).collect();
            let r = promote_unlisted(r, &ctx, &sigs);
            self.absorb_known(&ctx.known);
            let st = self.stages.get_mut(name).unwrap();
            st.evaluations += 1;
            *st.classes.entry("committed-replay".into()).or_insert(0) += 1;
            if let Err(f) = r {
                self.report(name, f, &case);
            }
        }
    }

    /// Exhaustive (or otherwise self-driven) stage: `body` receives an
    /// `Enumerator` and calls `enumr.case(&case, |ctx| oracle)` for each case.
    pub fn exhaustive<C, F>(&mut self, name: &str, complete: bool, body: F)
    where
        C: Debug + Clone + Serialize + DeserializeOwned,
        F: FnOnce(&mut Enumerator<C>),
    {
        self.register_stage(name);
        if let Some(path) = self.replay_mode.clone() {
            let Some((stage, case)) = load_replay::<C>(&path) else {
                return;
            };
            if stage != name {
                return;
            }
            // replay through the enumerator body with a filter on the stored case
            let mut e = Enumerator::<C> {
                stats: StageStats::default(),
                failures: vec![],
                known_hits: BTreeMap::new(),
                known_sigs: self.known.iter().map(|k| k.signature.clone()).collect(),
                only: Some(serde_json::to_string(&case).unwrap()),
                stop: false,
                max_failures: 1,
                stage: name.to_string(),
            };
            body(&mut e);
            self.replay_ran = true;
            self.stages.get_mut(name).unwrap().evaluations += e.stats.evaluations;
            if e.stats.evaluations == 0 {
                println!("replay {}: case not in the enumerated space", path.display());
            }
            for (f, c) in e.failures {
                self.report(name, f, &c);
            }
            return;
        }
        if !self.stage_enabled(name) {
            return;
        }
        let mut e = Enumerator::<C> {
            stats: StageStats::default(),
            failures: vec![],
            known_hits: BTreeMap::new(),
            known_sigs: self.known.iter().map(|k| k.signature.clone()).collect(),
            only: None,
            stop: false,
            max_failures: 3,
            stage: name.to_string(),
        };
        body(&mut e);
        let st = self.stages.get_mut(name).unwrap();
        st.evaluations += e.stats.evaluations;
        st.nontrivial.extend(e.stats.nontrivial);
        for (k, v) in e.stats.classes {
            *st.classes.entry(k).or_insert(0) += v;
        }
        st.samples.extend(e.stats.samples.into_iter().take(6));
        st.exhaustive = complete && e.failures.is_empty();
        for (sig, (n, msg)) in e.known_hits {
            if let Some(k) = self.is_known(&sig).cloned() {
                let en = self.known_hits.entry(k.signature.clone()).or_insert(0);
                if *en == 0 {
                    println!(
                        "KNOWN-FINDING: property={} {} [{}] e.g. {}",
                        self.id, k.description, k.signature, msg
                    );
                }
                *en += n;
            }
        }
        for (f, c) in e.failures {
            self.report(name, f, &c);
        }
    }

    /// Merge externally-produced counts (e.g. a libFuzzer campaign) into a stage.
    pub fn external_stage(
        &mut self,
        name: &str,
        evaluations: u64,
        nontrivial: u64,
        classes: BTreeMap<String, u64>,
        samples: Vec<Value>,
    ) {
        self.register_stage(name);
        let st = self.stages.get_mut(name).unwrap();
        st.evaluations += evaluations;
        // external stages cannot give hashes; synthesise distinct ids
        let base = hash_str(name);
        for i in 0..nontrivial {
            st.nontrivial.insert(base.wrapping_add(i));
        }
        for (k, v) in classes {
            *st.classes.entry(k).or_insert(0) += v;
        }
        st.samples.extend(samples.into_iter().take(6));
    }

    /// Report a violation found by an external engine (fuzzer crash file).
    pub fn external_violation(&mut self, stage: &str, fail: Fail, replay: PathBuf) {
        if let Some(k) = self.is_known(&fail.signature).cloned() {
            let n = self.known_hits.entry(k.signature.clone()).or_insert(0);
            if *n == 0 {
                println!(
                    "KNOWN-FINDING: property={} {} [{}] e.g. {}",
                    self.id, k.description, k.signature, fail.msg
                );
            }
            *n += 1;
            return;
        }
        println!(
            "VIOLATION property={} replay={} stage={} signature={} :: {}",
            self.id,
            replay.display(),
            stage,
            fail.signature,
            truncate(&fail.msg, 600)
        );
        self.violations.push(Violation {
            stage: stage.to_string(),
            fail,
            replay,
        });
    }

    pub fn mark_all_exhaustive(&mut self) {
        self.exhaustive_all = true;
    }

    /// Write evidence and exit with the contract's status.
    pub fn finish(self) -> ! {
        if self.replay_mode.is_some() {
            if !self.replay_ran {
                eprintln!("replay: no stage of {} matches the file", self.id);
                std::process::exit(2);
            }
            std::process::exit(if self.violations.is_empty() { 0 } else { 1 });
        }
        let wall = self.start.elapsed().as_secs_f64();
        let mut evaluations = 0u64;
        let mut nontrivial: HashSet<u64> = HashSet::new();
        let mut samples: Vec<Value> = vec![];
        let mut stages_json = serde_json::Map::new();
        let mut all_exh = !self.stages.is_empty();
        for name in &self.stage_order {
            let st = &self.stages[name];
            if st.evaluations == 0 {
                continue;
            }
            evaluations += st.evaluations;
            let salt = hash_str(name);
            nontrivial.extend(st.nontrivial.iter().map(|h| h ^ salt));
            for s in st.samples.iter().take(4) {
                samples.push(json!({"stage": name, "case": s}));
            }
            all_exh &= st.exhaustive;
            stages_json.insert(
                name.clone(),
                json!({
                    "evaluations": st.evaluations,
                    "distinct_nontrivial": st.nontrivial.len(),
                    "classes": st.classes,
                    "exhaustive": st.exhaustive,
                }),
            );
        }
        let mut coverage = serde_json::Map::new();
        coverage.insert("evaluations".into(), json!(evaluations));
        coverage.insert("distinct_nontrivial".into(), json!(nontrivial.len()));
        coverage.insert("rule".into(), json!(self.rule));
        coverage.insert("samples".into(), json!(samples));
        coverage.insert("stages".into(), Value::Object(stages_json));
        coverage.insert(
            "exhaustive".into(),
            json!(self.exhaustive_all || (all_exh && self.only_stage.is_none())),
        );
        coverage.insert(
            "known_findings_hit".into(),
            json!(self.known_hits),
        );
        coverage.insert(
            "violation_signatures".into(),
            json!(
                self.violations
                    .iter()
                    .map(|v| json!({"stage": v.stage, "signature": v.fail.signature, "replay": v.replay, "message": truncate(&v.fail.msg, 400)}))
                    .collect::<Vec<_>>()
            ),
        );
        for (k, v) in &self.extra {
            coverage.insert(k.clone(), v.clone());
        }
        let ev = json!({
            "property_id": self.id,
            "tier": if self.tier == Tier::Quick { "quick" } else { "thorough" },
            "seed": self.seed,
            "level": self.level,
            "coverage": coverage,
            "assumptions": self.assumptions,
            "wall_s": (wall * 1000.0).round() / 1000.0,
            "violations": self.violations.len(),
        });
        let dir = format!("{}/evidence", verif_root());
        let _ = std::fs::create_dir_all(&dir);
        let path = format!("{dir}/{}.json", self.id);
        // A property decided by two binaries (component + end-to-end part): the second one
        // merges its stages into the evidence the first one has just written.
        let ev = if std::env::var_os("VERIF_EVIDENCE_MERGE").is_some() {
            merge_evidence(&path, ev)
        } else {
            ev
        };
        if self.only_stage.is_none() && std::env::var_os("VERIF_NO_EVIDENCE").is_none() {
            std::fs::write(&path, serde_json::to_string_pretty(&ev).unwrap())
                .expect("write evidence");
        }
        println!(
            "{} {}: {} cases, {} distinct non-trivial, {} violation(s), {} known-finding signature(s) hit, {:.1}s",
            self.id,
            if self.tier == Tier::Quick { "quick" } else { "thorough" },
            evaluations,
            nontrivial.len(),
            self.violations.len(),
            self.known_hits.len(),
            wall
        );
        std::process::exit(if self.violations.is_empty() { 0 } else { 1 });
    }
}

/// A failure recorded through `ctx.known` is only tolerated when its signature is listed
/// in known-findings; an unlisted one fails the case (so nothing is silently dropped).
fn promote_unlisted(r: Outcome, ctx: &CaseCtx, known_sigs: &[String]) -> Outcome {
    if r.is_err() {
        return r;
    }
    for f in &ctx.known {
        if !known_sigs.iter().any(|k| sig_matches(k, &f.signature)) {
            return Err(f.clone());
        }
    }
    r
}

fn merge_evidence(path: &str, mut new: Value) -> Value {
    let Ok(text) = std::fs::read_to_string(path) else { return new };
    let Ok(old) = serde_json::from_str::<Value>(&text) else { return new };
    if old["tier"] != new["tier"] || old["seed"] != new["seed"] {
        return new;
    }
    let add = |a: &Value, b: &Value| json!(a.as_u64().unwrap_or(0) + b.as_u64().unwrap_or(0));
    let (oc, nc) = (old["coverage"].clone(), new["coverage"].clone());
    let cov = new["coverage"].as_object_mut().unwrap();
    cov.insert("evaluations".into(), add(&oc["evaluations"], &nc["evaluations"]));
    cov.insert("distinct_nontrivial".into(), add(&oc["distinct_nontrivial"], &nc["distinct_nontrivial"]));
    cov.insert("rule".into(), json!(format!("{} || {}", oc["rule"].as_str().unwrap_or(""), nc["rule"].as_str().unwrap_or(""))));
    let mut samples = oc["samples"].as_array().cloned().unwrap_or_default();
    samples.extend(nc["samples"].as_array().cloned().unwrap_or_default());
    cov.insert("samples".into(), json!(samples));
    let mut stages = oc["stages"].as_object().cloned().unwrap_or_default();
    stages.extend(nc["stages"].as_object().cloned().unwrap_or_default());
    cov.insert("stages".into(), Value::Object(stages));
    cov.insert("exhaustive".into(), json!(false));
    let mut kf = oc["known_findings_hit"].as_object().cloned().unwrap_or_default();
    kf.extend(nc["known_findings_hit"].as_object().cloned().unwrap_or_default());
    cov.insert("known_findings_hit".into(), Value::Object(kf));
    let mut vs = oc["violation_signatures"].as_array().cloned().unwrap_or_default();
    vs.extend(nc["violation_signatures"].as_array().cloned().unwrap_or_default());
    cov.insert("violation_signatures".into(), json!(vs));
    let mut assumptions = old["assumptions"].as_array().cloned().unwrap_or_default();
    assumptions.extend(new["assumptions"].as_array().cloned().unwrap_or_default());
    new["assumptions"] = json!(assumptions);
    new["wall_s"] = json!(old["wall_s"].as_f64().unwrap_or(0.0) + new["wall_s"].as_f64().unwrap_or(0.0));
    new["violations"] = add(&old["violations"], &new["violations"]);
    new
}

fn sig_matches(pattern: &str, sig: &str) -> bool {
    // exact match, or prefix match when the pattern ends with '*'
    if let Some(p) = pattern.strip_suffix('*') {
        sig.starts_with(p)
    } else {
        pattern == sig
    }
}

fn sanitize(s: &str) -> String {
    let t: String = s
        .chars()
        .map(|c| if c.is_ascii_alphanumeric() || c == '-' || c == '_' || c == '.' { c } else { '_' })
        .collect();
    t.chars().take(80).collect()
}

pub fn truncate(s: &str, n: usize) -> String {
    if s.len() <= n {
        s.to_string()
    } else {
        let mut end = n;
        while !s.is_char_boundary(end) {
            end -= 1;
        }
        format!("{}…", &s[..end])
    }
}

fn load_replay<C: DeserializeOwned>(path: &Path) -> Option<(String, C)> {
    let text = std::fs::read_to_string(path).ok()?;
    let v: Value = serde_json::from_str(&text).ok()?;
    let stage = v["stage"].as_str()?.to_string();
    let case: C = serde_json::from_value(v["case"].clone()).ok()?;
    Some((stage, case))
}

// ---------------------------------------------------------------------------
// shard runner
// ---------------------------------------------------------------------------

struct ShardResult<C> {
    evaluations: u64,
    nontrivial: HashSet<u64>,
    classes: BTreeMap<String, u64>,
    samples: Vec<Value>,
    known_hits: BTreeMap<String, (u64, String)>,
    failure: Option<(Fail, C)>,
}

fn run_shard<C, S, F>(
    stage: &str,
    cases: u64,
    seed: u64,
    strategy: S,
    oracle: &F,
    known_sigs: &[String],
    max_shrink_iters: u32,
) -> ShardResult<C>
where
    C: Debug + Clone + Serialize + Send + 'static,
    S: Strategy<Value = C>,
    F: Fn(&C, &mut CaseCtx) -> Outcome,
{
    let config = Config {
        cases: cases.min(u32::MAX as u64) as u32,
        max_local_rejects: 65_536,
        max_global_rejects: 1_000_000,
        max_flat_map_regens: 1_000_000,
        failure_persistence: None,
        source_file: None,
        test_name: None,
        max_shrink_time: 0,
        max_shrink_iters,
        max_default_size_range: 100,
        result_cache: proptest::test_runner::basic_result_cache,
        verbose: 0,
        rng_algorithm: proptest::test_runner::RngAlgorithm::ChaCha,
        rng_seed: RngSeed::Fixed(seed),
        ..Config::default()
    };
    let mut runner = TestRunner::new(config);
    let state = RefCell::new(ShardResult::<C> {
        evaluations: 0,
        nontrivial: HashSet::new(),
        classes: BTreeMap::new(),
        samples: vec![],
        known_hits: BTreeMap::new(),
        failure: None,
    });
    // once the first failure is seen we are in the shrinking phase: stop
    // counting, and only accept failures with the same signature
    let target_sig: RefCell<Option<String>> = RefCell::new(None);
    let last_fail: RefCell<Option<Fail>> = RefCell::new(None);

    let result = runner.run(&strategy, |case| {
        let shrinking = target_sig.borrow().is_some();
        let mut ctx = CaseCtx::default();
        let _w = watch::enter(stage, &case);
        let r = guarded(|| oracle(&case, &mut ctx));
        drop(_w);
        let r = promote_unlisted(r, &ctx, known_sigs);
        if !shrinking {
            let mut st = state.borrow_mut();
            st.evaluations += 1;
            for c in &ctx.classes {
                *st.classes.entry(c.clone()).or_insert(0) += 1;
            }
            for f in &ctx.known {
                let e = st
                    .known_hits
                    .entry(f.signature.clone())
                    .or_insert((0, f.msg.clone()));
                e.0 += 1;
            }
            if ctx.nontrivial {
                let js = serde_json::to_string(&case).unwrap_or_default();
                let h = hash_str(&js);
                let fresh = st.nontrivial.insert(h);
                if fresh && st.samples.len() < 3 {
                    let v = serde_json::to_value(&case).unwrap_or(Value::Null);
                    st.samples.push(match ctx.note.take() {
                        Some(n) => json!({"input": shorten(v), "observed": n}),
                        None => json!({"input": shorten(v)}),
                    });
                }
            }
        }
        match r {
            Ok(()) => Ok(()),
            Err(f) => {
                if shrinking {
                    if target_sig.borrow().as_deref() == Some(f.signature.as_str()) {
                        *last_fail.borrow_mut() = Some(f.clone());
                        Err(TestCaseError::fail(f.signature))
                    } else {
                        Ok(())
                    }
                } else if known_sigs.iter().any(|k| sig_matches(k, &f.signature)) {
                    let mut st = state.borrow_mut();
                    let e = st
                        .known_hits
                        .entry(f.signature.clone())
                        .or_insert((0, f.msg.clone()));
                    e.0 += 1;
                    Ok(())
                } else {
                    *target_sig.borrow_mut() = Some(f.signature.clone());
                    *last_fail.borrow_mut() = Some(f.clone());
                    Err(TestCaseError::fail(f.signature))
                }
            }
        }
    });
    let mut st = state.into_inner();
    match result {
        Ok(()) => {}
        Err(TestError::Fail(_, case)) => {
            let f = last_fail
                .into_inner()
                .unwrap_or_else(|| Fail::new("unknown", "proptest failure"));
            st.failure = Some((f, case));
        }
        Err(TestError::Abort(reason)) => {
            // generator starvation is an infrastructure problem, not a violation
            eprintln!("proptest aborted: {reason}");
            std::process::exit(2);
        }
    }
    st
}

/// Keep evidence samples small: long arrays/strings are elided.
pub fn shorten(v: Value) -> Value {
    match v {
        Value::Array(a) => {
            let n = a.len();
            let mut out: Vec<Value> = a.into_iter().take(24).map(shorten).collect();
            if n > 24 {
                out.push(json!(format!("… {} more", n - 24)));
            }
            Value::Array(out)
        }
        Value::Object(m) => Value::Object(m.into_iter().map(|(k, v)| (k, shorten(v))).collect()),
        Value::String(s) if s.len() > 160 => Value::String(truncate(&s, 160)),
        other => other,
    }
}

// ---------------------------------------------------------------------------
// exhaustive enumerator
// ---------------------------------------------------------------------------

pub struct Enumerator<C> {
    stats: StageStats,
    failures: Vec<(Fail, C)>,
    known_hits: BTreeMap<String, (u64, String)>,
    known_sigs: Vec<String>,
    only: Option<String>,
    stop: bool,
    max_failures: usize,
    stage: String,
}

impl<C: Debug + Clone + Serialize + Send + 'static> Enumerator<C> {
    /// true once enough distinct failures were collected; enumerators should stop.
    pub fn stopped(&self) -> bool {
        self.stop
    }

    pub fn case(&mut self, case: &C, oracle: impl FnOnce(&C, &mut CaseCtx) -> Outcome) {
        if self.stop {
            return;
        }
        if let Some(only) = &self.only {
            if &serde_json::to_string(case).unwrap() != only {
                return;
            }
        }
        let mut ctx = CaseCtx::default();
        let _w = watch::enter(&self.stage, case);
        let r = guarded(|| oracle(case, &mut ctx));
        drop(_w);
        let r = promote_unlisted(r, &ctx, &self.known_sigs);
        self.stats.evaluations += 1;
        for c in &ctx.classes {
            *self.stats.classes.entry(c.clone()).or_insert(0) += 1;
        }
        for f in &ctx.known {
            let e = self
                .known_hits
                .entry(f.signature.clone())
                .or_insert((0, f.msg.clone()));
            e.0 += 1;
        }
        if ctx.nontrivial {
            let js = serde_json::to_string(case).unwrap_or_default();
            if self.stats.nontrivial.insert(hash_str(&js)) && self.stats.samples.len() < 4 {
                // sample sparsely: first few distinct non-trivial cases
                self.stats
                    .samples
                    .push(json!({"input": shorten(serde_json::to_value(case).unwrap_or(Value::Null))}));
            }
        }
        if let Err(f) = r {
            if self.known_sigs.iter().any(|k| sig_matches(k, &f.signature)) {
                let e = self
                    .known_hits
                    .entry(f.signature.clone())
                    .or_insert((0, f.msg.clone()));
                e.0 += 1;
                return;
            }
            // enumeration order is smallest-first, so the first failure per
            // signature is already (near-)minimal
            if !self.failures.iter().any(|(g, _)| g.signature == f.signature) {
                self.failures.push((f, case.clone()));
                if self.failures.len() >= self.max_failures {
                    self.stop = true;
                }
            }
        }
    }
}

// ---------------------------------------------------------------------------
// misc helpers shared by checks
// ---------------------------------------------------------------------------

/// Shared flag + counters for watchdogs (used by checks that own loops).
pub struct Budget {
    pub steps: AtomicU64,
    pub tripped: AtomicBool,
}

impl Budget {
    pub fn new() -> Arc<Self> {
        Arc::new(Self {
            steps: AtomicU64::new(0),
            tripped: AtomicBool::new(false),
        })
    }
}

pub fn btree_classes(pairs: &[(&str, u64)]) -> BTreeMap<String, u64> {
    pairs.iter().map(|(k, v)| (k.to_string(), *v)).collect()
}

pub fn uniq<T: Ord + Clone>(v: &[T]) -> BTreeSet<T> {
    v.iter().cloned().collect()
}
