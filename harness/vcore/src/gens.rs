//! Generators shared by the checks.

use proptest::prelude::*;

pub const VARINT_MAX: u64 = (1 << 62) - 1;

/// The boundary set named by the properties.
pub const VARINT_BOUNDS: [u64; 12] = [
    0,
    1,
    63,
    64,
    16383,
    16384,
    (1 << 30) - 1,
    1 << 30,
    (1 << 31) - 1,
    1 << 31,
    (1 << 62) - 2,
    (1 << 62) - 1,
];

/// Boundary-biased varint value in [0, 2^62).
pub fn varint() -> BoxedStrategy<u64> {
    prop_oneof![
        4 => proptest::sample::select(VARINT_BOUNDS.to_vec()),
        3 => 0u64..64,
        2 => 64u64..16384,
        2 => 16384u64..(1 << 30),
        2 => (1u64 << 30)..(1 << 62),
        1 => (0u32..62).prop_map(|s| 1u64 << s),
        1 => (1u32..=62).prop_map(|s| (1u64 << s) - 1),
    ]
    .boxed()
}

/// Small-biased value, for offsets / lengths that drive real buffers.
pub fn small(max: u64) -> BoxedStrategy<u64> {
    prop_oneof![
        3 => 0..=max.min(4),
        3 => 0..=max.min(64),
        2 => 0..=max,
    ]
    .boxed()
}

/// Map a 16-bit index monotonically onto 0..len (len > 0) so shrinking works.
pub fn idx(i: u16, len: usize) -> usize {
    ((i as usize) * len) >> 16
}

/// Map a 16-bit index monotonically onto 0..=max.
pub fn upto(i: u16, max: u64) -> u64 {
    (((i as u128) * (max as u128 + 1)) >> 16) as u64
}

/// Deterministic content byte for offset `o` of stream `s` (so any slice of
/// the content is recognisable and position-dependent).
pub fn content_byte(stream: u64, o: u64) -> u8 {
    let x = o
        .wrapping_mul(0x9e3779b97f4a7c15)
        .wrapping_add(stream.wrapping_mul(0xd1b54a32d192ed03));
    ((x >> 56) as u8) ^ (o as u8).wrapping_mul(31) ^ ((o >> 8) as u8)
}

pub fn content(stream: u64, from: u64, len: usize) -> Vec<u8> {
    (0..len as u64).map(|i| content_byte(stream, from + i)).collect()
}

pub fn bytes_vec(max: usize) -> BoxedStrategy<Vec<u8>> {
    prop_oneof![
        2 => proptest::collection::vec(any::<u8>(), 0..=max.min(8)),
        2 => proptest::collection::vec(any::<u8>(), 0..=max.min(70)),
        1 => proptest::collection::vec(any::<u8>(), 0..=max),
    ]
    .boxed()
}
