//! Counting global allocator. A check binary opts in with
//! `#[global_allocator] static A: vcore::alloc::Counting = vcore::alloc::Counting;`
//! Counters are per thread, so sharded runners do not disturb each other.
//! An optional per-thread *limit* makes an oversized request fail (null ⇒ the
//! standard `handle_alloc_error` abort), which isolated child runners use to
//! turn "allocates proportionally to an attacker-chosen number" into an
//! observable, deterministic outcome instead of an OOM of the machine.

use std::{
    alloc::{GlobalAlloc, Layout, System},
    cell::Cell,
};

thread_local! {
    static BYTES: Cell<u64> = const { Cell::new(0) };
    static CALLS: Cell<u64> = const { Cell::new(0) };
    static PEAK_REQ: Cell<u64> = const { Cell::new(0) };
    static LIMIT: Cell<u64> = const { Cell::new(u64::MAX) };
}

pub struct Counting;

unsafe impl GlobalAlloc for Counting {
    unsafe fn alloc(&self, layout: Layout) -> *mut u8 {
        if !note(layout.size() as u64) {
            return std::ptr::null_mut();
        }
        unsafe { System.alloc(layout) }
    }
    unsafe fn dealloc(&self, ptr: *mut u8, layout: Layout) {
        unsafe { System.dealloc(ptr, layout) }
    }
    unsafe fn alloc_zeroed(&self, layout: Layout) -> *mut u8 {
        if !note(layout.size() as u64) {
            return std::ptr::null_mut();
        }
        unsafe { System.alloc_zeroed(layout) }
    }
    unsafe fn realloc(&self, ptr: *mut u8, layout: Layout, new_size: usize) -> *mut u8 {
        let grow = (new_size as u64).saturating_sub(layout.size() as u64);
        if !note(grow) {
            return std::ptr::null_mut();
        }
        unsafe { System.realloc(ptr, layout, new_size) }
    }
}

fn note(size: u64) -> bool {
    // try_with: the allocator may be called during thread teardown
    let mut ok = true;
    let _ = BYTES.try_with(|b| {
        let total = b.get().saturating_add(size);
        let lim = LIMIT.try_with(|l| l.get()).unwrap_or(u64::MAX);
        if total > lim {
            ok = false;
        } else {
            b.set(total);
        }
    });
    if ok {
        let _ = CALLS.try_with(|c| c.set(c.get() + 1));
        let _ = PEAK_REQ.try_with(|p| p.set(p.get().max(size)));
    }
    ok
}

#[derive(Debug, Clone, Copy, Default, PartialEq, Eq)]
pub struct Snapshot {
    pub bytes: u64,
    pub calls: u64,
    pub peak_request: u64,
}

/// Reset this thread's counters.
pub fn reset() {
    BYTES.with(|b| b.set(0));
    CALLS.with(|c| c.set(0));
    PEAK_REQ.with(|p| p.set(0));
}

pub fn snapshot() -> Snapshot {
    Snapshot {
        bytes: BYTES.with(|b| b.get()),
        calls: CALLS.with(|c| c.get()),
        peak_request: PEAK_REQ.with(|p| p.get()),
    }
}

/// Cumulative bytes this thread may still request before allocations fail.
pub fn set_limit(bytes_from_now: u64) {
    let cur = BYTES.with(|b| b.get());
    LIMIT.with(|l| l.set(cur.saturating_add(bytes_from_now)));
}

pub fn clear_limit() {
    LIMIT.with(|l| l.set(u64::MAX));
}

/// Measure allocations performed by `f` on this thread.
pub fn measure<R>(f: impl FnOnce() -> R) -> (R, Snapshot) {
    let before = snapshot();
    PEAK_REQ.with(|p| p.set(0));
    let r = f();
    let after = snapshot();
    (
        r,
        Snapshot {
            bytes: after.bytes - before.bytes,
            calls: after.calls - before.calls,
            peak_request: after.peak_request,
        },
    )
}
