//! Per-case CPU watchdog. The code under test runs in-process on the shard threads; a case that
//! never returns (a decoder that loops without consuming input, a livelock) would otherwise hang
//! the whole check. Every case registers itself (a clone of its input) in a per-thread slot; one
//! monitor thread compares the *CPU time of that thread* since the case began with a budget, so a
//! loaded machine does not trip it. A stuck thread cannot be killed: the monitor writes the replay
//! file, prints the verdict line and ends the process.
//!
//! The budget is a soundness parameter: it has to be orders of magnitude above what the slowest
//! legitimate case of the check needs. `violation = true` is for properties that themselves promise
//! termination (C03, C18: "decoding terminates"); otherwise exceeding the budget is reported as
//! inconclusive (exit 2).

use std::{
    any::Any,
    path::PathBuf,
    sync::{
        Arc, Mutex, OnceLock,
        atomic::{AtomicU64, Ordering::SeqCst},
    },
    time::Duration,
};

use serde::Serialize;
use serde_json::{Value, json};

#[derive(Debug, Clone)]
pub struct Policy {
    pub cpu: Duration,
    pub violation: bool,
}

struct Held {
    stage: String,
    case: Box<dyn Any + Send>,
    to_json: fn(&(dyn Any + Send)) -> Value,
}

struct Slot {
    clock: libc::clockid_t,
    /// thread CPU time (ns) when the current case began; 0 = idle
    began: AtomicU64,
    held: Mutex<Option<Held>>,
}

struct Monitor {
    slots: Mutex<Vec<Arc<Slot>>>,
    policy: Mutex<Policy>,
    id: String,
    seed: u64,
    found_dir: PathBuf,
}

static MONITOR: OnceLock<Monitor> = OnceLock::new();

thread_local! {
    static MY: Arc<Slot> = register();
}

fn cpu_ns(clock: libc::clockid_t) -> u64 {
    let mut ts = libc::timespec { tv_sec: 0, tv_nsec: 0 };
    // SAFETY: plain syscall writing into a local
    if unsafe { libc::clock_gettime(clock, &mut ts) } != 0 {
        return 0;
    }
    (ts.tv_sec as u64) * 1_000_000_000 + ts.tv_nsec as u64
}

fn register() -> Arc<Slot> {
    let mut clock: libc::clockid_t = 0;
    // SAFETY: pthread_self() is always valid for the calling thread
    let rc = unsafe { libc::pthread_getcpuclockid(libc::pthread_self(), &mut clock) };
    let slot = Arc::new(Slot {
        clock: if rc == 0 { clock } else { libc::CLOCK_THREAD_CPUTIME_ID },
        began: AtomicU64::new(0),
        held: Mutex::new(None),
    });
    if rc == 0 {
        if let Some(m) = MONITOR.get() {
            m.slots.lock().unwrap().push(slot.clone());
        }
    }
    slot
}

pub struct Guard(());

impl Drop for Guard {
    fn drop(&mut self) {
        MY.with(|s| {
            s.began.store(0, SeqCst);
            *s.held.lock().unwrap() = None;
        });
    }
}

fn erased_json<C: Serialize + 'static>(a: &(dyn Any + Send)) -> Value {
    a.downcast_ref::<C>().and_then(|c| serde_json::to_value(c).ok()).unwrap_or(Value::Null)
}

/// Mark the beginning of a case on this thread; the guard marks its end.
pub fn enter<C: Serialize + Clone + Send + 'static>(stage: &str, case: &C) -> Guard {
    if MONITOR.get().is_some() {
        MY.with(|s| {
            *s.held.lock().unwrap() =
                Some(Held { stage: stage.to_string(), case: Box::new(case.clone()), to_json: erased_json::<C> });
            s.began.store(cpu_ns(s.clock).max(1), SeqCst);
        });
    }
    Guard(())
}

pub fn set_policy(p: Policy) {
    if let Some(m) = MONITOR.get() {
        *m.policy.lock().unwrap() = p;
    }
}

/// Start the monitor thread (once per process).
pub fn start(id: &str, seed: u64, found_dir: PathBuf, policy: Policy) {
    if MONITOR
        .set(Monitor { slots: Mutex::new(vec![]), policy: Mutex::new(policy), id: id.to_string(), seed, found_dir })
        .is_err()
    {
        return;
    }
    std::thread::Builder::new()
        .name("vcore-watchdog".into())
        .spawn(|| {
            let m = MONITOR.get().unwrap();
            loop {
                std::thread::sleep(Duration::from_millis(500));
                let policy = m.policy.lock().unwrap().clone();
                let slots: Vec<Arc<Slot>> = m.slots.lock().unwrap().clone();
                for s in slots {
                    let began = s.began.load(SeqCst);
                    if began == 0 {
                        continue;
                    }
                    let used = cpu_ns(s.clock).saturating_sub(began);
                    if used < policy.cpu.as_nanos() as u64 {
                        continue;
                    }
                    // same case still running? (began unchanged)
                    let held = s.held.lock().unwrap().take();
                    if s.began.load(SeqCst) != began {
                        continue;
                    }
                    let Some(h) = held else { continue };
                    let case = (h.to_json)(h.case.as_ref());
                    let sig = "no-termination";
                    let msg = format!(
                        "the case has used {:.1} s of CPU on its thread without returning (budget {} s): the code under test does not terminate on this input",
                        used as f64 / 1e9,
                        policy.cpu.as_secs()
                    );
                    let body = json!({"property": m.id, "stage": h.stage, "signature": sig, "message": msg, "seed": m.seed, "case": case});
                    let _ = std::fs::create_dir_all(&m.found_dir);
                    let path = m.found_dir.join(format!(
                        "{}-{:016x}.json",
                        sig,
                        crate::hash_str(&serde_json::to_string(&body["case"]).unwrap_or_default())
                    ));
                    let _ = std::fs::write(&path, serde_json::to_string_pretty(&body).unwrap());
                    if policy.violation {
                        println!(
                            "VIOLATION property={} replay={} stage={} signature={} :: {}",
                            m.id,
                            path.display(),
                            h.stage,
                            sig,
                            msg
                        );
                        std::process::exit(1);
                    } else {
                        println!(
                            "INCONCLUSIVE property={} replay={} stage={} :: {} (reported as an infrastructure problem, exit 2)",
                            m.id,
                            path.display(),
                            h.stage,
                            msg
                        );
                        std::process::exit(2);
                    }
                }
            }
        })
        .expect("spawn watchdog");
}
