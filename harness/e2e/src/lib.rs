//! simnet: the whole dquic client+server stack over an in-memory datagram
//! network with a generated fault schedule, on a current-thread tokio runtime
//! with a paused (virtual) clock.

pub mod net;
pub mod world;

pub use net::*;
pub use world::*;
