//! simnet: in-memory datagram network for end-to-end checks.
