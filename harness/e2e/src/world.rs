//! Builds a client and a server over a `SimNet` inside a fresh paused-clock
//! current-thread runtime, runs a generated workload and returns a transcript.

use std::{
    future::Future,
    net::SocketAddr,
    sync::{Arc, Mutex, OnceLock},
    time::Duration,
};

use dquic::{
    prelude::{handy::*, *},
    qbase::param::{ClientParameters, ServerParameters},
    qinterface::{component::route::QuicRouter, manager::InterfaceManager},
    qresolve::Source,
};
use qevent::telemetry::QLog;
use rustls::pki_types::{CertificateDer, pem::PemObject};
use serde::{Deserialize, Serialize};
use tokio::io::{AsyncReadExt, AsyncWriteExt};

use crate::net::{NetCfg, SimNet};

pub const CA_CERT: &[u8] = include_bytes!("/repo/tests/keychain/localhost/ca.cert");
// The server authenticates with an Ed25519 key (certificate issued by the repository's test CA,
// generated once with openssl, see certs/): its CertificateVerify signature has a fixed length,
// whereas an ECDSA signature's DER length varies from run to run (random nonce) and would make
// handshake datagram sizes - and everything scheduled after them - non-reproducible.
pub const SERVER_CERT: &[u8] = include_bytes!("../certs/server-ed25519.cert");
pub const SERVER_KEY: &[u8] = include_bytes!("../certs/server-ed25519.key");

pub const SERVER_ADDR: ([u8; 4], u16) = ([10, 0, 0, 1], 4433);

pub fn server_addr() -> SocketAddr {
    SocketAddr::from(SERVER_ADDR)
}

// ---------------------------------------------------------------------------
// generated configuration
// ---------------------------------------------------------------------------

#[derive(Debug, Clone, Serialize, Deserialize, PartialEq)]
pub struct ParamCfg {
    pub max_data: u32,
    pub sd_bidi_local: u32,
    pub sd_bidi_remote: u32,
    pub sd_uni: u32,
    pub streams_bidi: u32,
    pub streams_uni: u32,
    /// 0 = absent
    pub idle_ms: u32,
    /// 0 = datagrams disabled
    pub max_datagram: u32,
}

impl Default for ParamCfg {
    fn default() -> Self {
        Self {
            max_data: 1 << 20,
            sd_bidi_local: 1 << 20,
            sd_bidi_remote: 1 << 20,
            sd_uni: 1 << 20,
            streams_bidi: 100,
            streams_uni: 100,
            idle_ms: 30_000,
            max_datagram: 0,
        }
    }
}

macro_rules! apply_params {
    ($p:expr, $c:expr) => {{
        let c = $c;
        for (id, v) in [
            (ParameterId::InitialMaxStreamsBidi, c.streams_bidi),
            (ParameterId::InitialMaxStreamsUni, c.streams_uni),
            (ParameterId::InitialMaxData, c.max_data),
            (ParameterId::InitialMaxStreamDataBidiLocal, c.sd_bidi_local),
            (ParameterId::InitialMaxStreamDataBidiRemote, c.sd_bidi_remote),
            (ParameterId::InitialMaxStreamDataUni, c.sd_uni),
            (ParameterId::ActiveConnectionIdLimit, 10u32),
        ] {
            $p.set(id, v).expect("varint parameter");
        }
        if c.idle_ms > 0 {
            $p.set(ParameterId::MaxIdleTimeout, Duration::from_millis(c.idle_ms as u64))
                .expect("idle");
        }
        if c.max_datagram > 0 {
            $p.set(ParameterId::MaxDatagramFrameSize, c.max_datagram)
                .expect("datagram");
        }
    }};
}

pub fn client_params(c: &ParamCfg) -> ClientParameters {
    let mut p = ClientParameters::default();
    apply_params!(p, c);
    p
}

pub fn server_params(c: &ParamCfg) -> ServerParameters {
    let mut p = ServerParameters::default();
    apply_params!(p, c);
    p
}

#[derive(Debug, Clone, Copy, Serialize, Deserialize, PartialEq, Eq, Hash)]
pub enum Side {
    Client,
    Server,
}

/// One application stream of the workload.
#[derive(Debug, Clone, Serialize, Deserialize, PartialEq)]
pub struct StreamSpec {
    pub opener: Side,
    pub bidi: bool,
    /// bytes the opener writes
    pub size: u32,
    /// write chunk size
    pub chunk: u16,
    /// bytes the acceptor writes back (bidi only)
    pub reply: u32,
}

#[derive(Debug, Clone, Serialize, Deserialize, PartialEq)]
pub struct WorldCfg {
    pub net: NetCfg,
    pub client: ParamCfg,
    pub server: ParamCfg,
    pub streams: Vec<StreamSpec>,
}

// ---------------------------------------------------------------------------
// runtime plumbing
// ---------------------------------------------------------------------------

/// `Devices::global()` spawns a timer task on whichever runtime first touches
/// it; park it on a dedicated background runtime so that no case's runtime
/// hosts it (cases must be pure functions of their input).
pub fn init_process_globals() {
    static ONCE: OnceLock<()> = OnceLock::new();
    ONCE.get_or_init(|| {
        let (tx, rx) = std::sync::mpsc::channel();
        std::thread::Builder::new()
            .name("verif-globals".into())
            .spawn(move || {
                let rt = tokio::runtime::Builder::new_current_thread()
                    .enable_time()
                    .build()
                    .unwrap();
                rt.block_on(async move {
                    let _ = dquic::qinterface::device::Devices::global();
                    let _ = tx.send(());
                    std::future::pending::<()>().await;
                });
            })
            .unwrap();
        let _ = rx.recv();
    });
}

pub struct World {
    pub net: SimNet,
    pub client: Arc<QuicClient>,
    pub listeners: Arc<QuicListeners>,
    pub router: Arc<QuicRouter>,
}

pub struct WorldOpts {
    pub qlog: Option<Arc<dyn QLog + Send + Sync>>,
    pub defer_idle: Option<Duration>,
}

impl Default for WorldOpts {
    fn default() -> Self {
        Self {
            qlog: None,
            defer_idle: None,
        }
    }
}

impl World {
    pub async fn build(cfg: &WorldCfg, opts: &WorldOpts) -> World {
        let net = SimNet::new(cfg.net.clone(), server_addr());
        {
            // send-storm caps, proportional to the workload. A transfer needs roughly one
            // datagram per kilobyte (one per window step with tiny windows, which the
            // generators bound to ~400 steps per direction). Burst cap: datagrams at ONE
            // virtual instant (with zero latency a whole transfer can legitimately happen
            // at one instant). Total cap: whole run, including perpetual retransmission.
            let bytes: u64 = cfg.streams.iter().map(|s| s.size as u64 + s.reply as u64).sum();
            let mut g = net.0.lock().unwrap();
            g.summary.burst_cap = (4_000 + bytes / 100).min(u32::MAX as u64) as u32;
            g.datagram_cap = (150_000 + bytes / 50).min(u32::MAX as u64) as u32;
        }
        tokio::spawn(net.pump());
        let router = Arc::new(QuicRouter::default());
        let manager = Arc::new(InterfaceManager::new());
        let qlog: Arc<dyn QLog + Send + Sync> = opts.qlog.clone().unwrap_or_else(|| Arc::new(NoopLogger));

        let mut lb = QuicListeners::builder()
            .with_router(router.clone())
            .with_iface_factory(net.factory())
            .with_iface_manager(manager.clone())
            .without_client_cert_verifier()
            .with_parameters(server_params(&cfg.server))
            .with_qlog(qlog.clone());
        if let Some(d) = opts.defer_idle {
            lb = lb.defer_idle_timeout(d);
        }
        let listeners = lb.listen(128).expect("listen");
        let a = server_addr();
        listeners
            .add_server(
                "localhost",
                SERVER_CERT,
                SERVER_KEY,
                [BindUri::from(format!("inet://{}:{}", a.ip(), a.port()).as_str())],
                None,
            )
            .await
            .expect("add_server");

        let mut roots = rustls::RootCertStore::empty();
        roots.add_parsable_certificates(CertificateDer::pem_slice_iter(CA_CERT).map(Result::unwrap));
        let mut cb = QuicClient::builder()
            .with_router(router.clone())
            .with_iface_factory(net.factory())
            .with_iface_manager(manager.clone())
            .with_root_certificates(roots)
            .with_parameters(client_params(&cfg.client))
            .without_cert()
            .with_qlog(qlog);
        if let Some(d) = opts.defer_idle {
            cb = cb.defer_idle_timeout(d);
        }
        let client = Arc::new(cb.build());
        World {
            net,
            client,
            listeners,
            router,
        }
    }

    /// Like [`World::build`], for session resumption and 0-RTT: the server keeps `sessions` (its
    /// TLS session storage) across "restarts" and the client keeps `client_tls` (clones of a
    /// rustls ClientConfig share the client-side session store); both sides enable 0-RTT.
    pub async fn build_resumable(
        cfg: &WorldCfg,
        sessions: Arc<dyn rustls::server::StoresServerSessions + Send + Sync>,
        client_tls: &rustls::ClientConfig,
    ) -> World {
        use rustls::pki_types::PrivateKeyDer;
        let net = SimNet::new(cfg.net.clone(), server_addr());
        {
            let bytes: u64 = cfg.streams.iter().map(|s| s.size as u64 + s.reply as u64).sum();
            let mut g = net.0.lock().unwrap();
            g.summary.burst_cap = (4_000 + bytes / 100).min(u32::MAX as u64) as u32;
            g.datagram_cap = (150_000 + bytes / 50).min(u32::MAX as u64) as u32;
        }
        tokio::spawn(net.pump());
        let router = Arc::new(QuicRouter::default());
        let manager = Arc::new(InterfaceManager::new());
        let certs = CertificateDer::pem_slice_iter(SERVER_CERT).map(Result::unwrap).collect::<Vec<_>>();
        let key = PrivateKeyDer::from_pem_slice(SERVER_KEY).unwrap();
        let mut server_tls = rustls::ServerConfig::builder_with_protocol_versions(&[&rustls::version::TLS13])
            .with_no_client_auth()
            .with_single_cert(certs, key)
            .unwrap();
        server_tls.session_storage = sessions;
        let listeners = QuicListeners::builder_with_tls(server_tls)
            .with_router(router.clone())
            .with_iface_factory(net.factory())
            .with_iface_manager(manager.clone())
            .with_parameters(server_params(&cfg.server))
            .enable_0rtt()
            .listen(128)
            .expect("listen");
        let a = server_addr();
        listeners
            .add_server(
                "localhost",
                SERVER_CERT,
                SERVER_KEY,
                [BindUri::from(format!("inet://{}:{}", a.ip(), a.port()).as_str())],
                None,
            )
            .await
            .expect("add_server");
        let client = Arc::new(
            QuicClient::builder_with_tls(client_tls.clone())
                .with_router(router.clone())
                .with_iface_factory(net.factory())
                .with_iface_manager(manager.clone())
                .with_parameters(client_params(&cfg.client))
                .enable_0rtt()
                .build(),
        );
        World { net, client, listeners, router }
    }

    /// rustls client configuration for [`World::build_resumable`] (trusts the test CA)
    pub fn resumable_client_tls() -> rustls::ClientConfig {
        let mut roots = rustls::RootCertStore::empty();
        roots.add_parsable_certificates(CertificateDer::pem_slice_iter(CA_CERT).map(Result::unwrap));
        rustls::ClientConfig::builder_with_protocol_versions(&[&rustls::version::TLS13])
            .with_root_certificates(roots)
            .with_no_client_auth()
    }

    pub async fn connect(&self) -> Result<Connection, String> {
        self.client
            .connected_to_with_source("localhost", [(Source::System, server_addr().into())])
            .await
            .map_err(|e| format!("{e:?}"))
    }
}

/// Run `f` on a fresh paused-clock current-thread runtime. Returns the value
/// and the panics recorded on this thread during the run.
pub fn run_virtual<F, Fut, R>(f: F) -> (Option<R>, Vec<(String, String)>)
where
    F: FnOnce() -> Fut,
    Fut: Future<Output = R>,
{
    init_process_globals();
    let _ = vcore::take_thread_panics();
    let rt = tokio::runtime::Builder::new_current_thread()
        .enable_time()
        .start_paused(true)
        .build()
        .unwrap();
    let r = std::panic::catch_unwind(std::panic::AssertUnwindSafe(|| rt.block_on(f())));
    // dropping the runtime drops every task of the case
    drop(rt);
    (r.ok(), vcore::take_thread_panics())
}

// ---------------------------------------------------------------------------
// workload interpreter
// ---------------------------------------------------------------------------

/// What one endpoint's application observed on one stream direction.
#[derive(Debug, Clone, Serialize, Default, PartialEq)]
pub struct ReadOutcome {
    pub bytes: u64,
    pub eof: bool,
    pub error: Option<String>,
    /// first offset at which the bytes differ from what the peer wrote
    pub mismatch_at: Option<u64>,
    pub done_at_us: Option<u64>,
}

#[derive(Debug, Clone, Serialize, Default, PartialEq)]
pub struct WriteOutcome {
    pub written: u64,
    pub shutdown_ok: bool,
    pub error: Option<String>,
    pub done_at_us: Option<u64>,
}

#[derive(Debug, Clone, Serialize, Default)]
pub struct StreamTranscript {
    pub spec_index: usize,
    pub opened: bool,
    pub accepted: bool,
    /// opener → acceptor
    pub fwd_write: WriteOutcome,
    pub fwd_read: ReadOutcome,
    /// acceptor → opener (bidi)
    pub back_write: WriteOutcome,
    pub back_read: ReadOutcome,
}

#[derive(Debug, Clone, Serialize, Default)]
pub struct Transcript {
    pub connected: bool,
    pub client_handshaked: Option<Result<(), String>>,
    pub server_accepted: bool,
    pub streams: Vec<StreamTranscript>,
    pub client_terminated: Option<String>,
    pub server_terminated: Option<String>,
    pub finished_at_us: Option<u64>,
    pub timed_out: bool,
}

/// tag for the content of stream `i` in direction `back`
pub fn stream_tag(i: usize, back: bool) -> u64 {
    (i as u64) * 2 + back as u64 + 100
}

async fn write_all(
    mut w: StreamWriter,
    tag: u64,
    size: u32,
    chunk: u16,
    net: SimNet,
) -> WriteOutcome {
    let mut out = WriteOutcome::default();
    let chunk = (chunk as usize).max(1);
    let mut off = 0u64;
    while off < size as u64 {
        let n = chunk.min((size as u64 - off) as usize);
        let data = vcore::gens::content(tag, off, n);
        match w.write_all(&data).await {
            Ok(()) => {
                off += n as u64;
                out.written = off;
            }
            Err(e) => {
                out.error = Some(format!("write: {e}"));
                return out;
            }
        }
    }
    match w.shutdown().await {
        Ok(()) => out.shutdown_ok = true,
        Err(e) => out.error = Some(format!("shutdown: {e}")),
    }
    out.done_at_us = Some(net.elapsed_us());
    out
}

async fn read_all(mut r: StreamReader, tag: u64, net: SimNet) -> ReadOutcome {
    let mut out = ReadOutcome::default();
    let mut buf = vec![0u8; 4096];
    loop {
        match r.read(&mut buf).await {
            Ok(0) => {
                out.eof = true;
                break;
            }
            Ok(n) => {
                if out.mismatch_at.is_none() {
                    let want = vcore::gens::content(tag, out.bytes, n);
                    if let Some(p) = (0..n).find(|i| want[*i] != buf[*i]) {
                        out.mismatch_at = Some(out.bytes + p as u64);
                    }
                }
                out.bytes += n as u64;
            }
            Err(e) => {
                out.error = Some(format!("{e}"));
                break;
            }
        }
    }
    out.done_at_us = Some(net.elapsed_us());
    out
}

type Shared = Arc<Mutex<Transcript>>;

/// Drive one side of the workload on `conn`.
async fn run_side(conn: Connection, side: Side, cfg: Arc<WorldCfg>, shared: Shared, net: SimNet) {
    let mut tasks = tokio::task::JoinSet::new();

    // ---- streams this side opens, in order (stream ids are then predictable)
    {
        let conn = conn.clone();
        let cfg = cfg.clone();
        let shared = shared.clone();
        let net = net.clone();
        tasks.spawn(async move {
            let mut inner = tokio::task::JoinSet::new();
            for (i, spec) in cfg.streams.iter().enumerate().filter(|(_, s)| s.opener == side) {
                if spec.bidi {
                    match conn.open_bi_stream().await {
                        Ok(Some((_sid, (reader, writer)))) => {
                            shared.lock().unwrap().streams[i].opened = true;
                            let (sh, n1) = (shared.clone(), net.clone());
                            let (size, chunk) = (spec.size, spec.chunk);
                            inner.spawn(async move {
                                let o = write_all(writer, stream_tag(i, false), size, chunk, n1).await;
                                sh.lock().unwrap().streams[i].fwd_write = o;
                            });
                            let (sh, n1) = (shared.clone(), net.clone());
                            inner.spawn(async move {
                                let o = read_all(reader, stream_tag(i, true), n1).await;
                                sh.lock().unwrap().streams[i].back_read = o;
                            });
                        }
                        Ok(None) => {
                            shared.lock().unwrap().streams[i].fwd_write.error = Some("open: stream ids exhausted".into());
                        }
                        Err(e) => {
                            let mut g = shared.lock().unwrap();
                            g.streams[i].fwd_write.error = Some(format!("open: {e}"));
                            g.streams[i].back_read.error = Some(format!("open: {e}"));
                        }
                    }
                } else {
                    match conn.open_uni_stream().await {
                        Ok(Some((_sid, writer))) => {
                            shared.lock().unwrap().streams[i].opened = true;
                            let (sh, n1) = (shared.clone(), net.clone());
                            let (size, chunk) = (spec.size, spec.chunk);
                            inner.spawn(async move {
                                let o = write_all(writer, stream_tag(i, false), size, chunk, n1).await;
                                sh.lock().unwrap().streams[i].fwd_write = o;
                            });
                        }
                        Ok(None) => {
                            shared.lock().unwrap().streams[i].fwd_write.error = Some("open: stream ids exhausted".into());
                        }
                        Err(e) => {
                            shared.lock().unwrap().streams[i].fwd_write.error = Some(format!("open: {e}"));
                        }
                    }
                }
            }
            while inner.join_next().await.is_some() {}
        });
    }

    // ---- streams the peer opens: k-th accepted bidi/uni stream ↔ k-th spec of that kind
    let peer = if side == Side::Client { Side::Server } else { Side::Client };
    let bidi_specs: Vec<usize> = cfg
        .streams
        .iter()
        .enumerate()
        .filter(|(_, s)| s.opener == peer && s.bidi)
        .map(|(i, _)| i)
        .collect();
    let uni_specs: Vec<usize> = cfg
        .streams
        .iter()
        .enumerate()
        .filter(|(_, s)| s.opener == peer && !s.bidi)
        .map(|(i, _)| i)
        .collect();
    if !bidi_specs.is_empty() {
        let (conn, cfg, shared, net) = (conn.clone(), cfg.clone(), shared.clone(), net.clone());
        tasks.spawn(async move {
            let mut inner = tokio::task::JoinSet::new();
            let mut seen = 0usize;
            while seen < bidi_specs.len() {
                match conn.accept_bi_stream().await {
                    Ok((sid, (reader, writer))) => {
                        // stream ids of one kind are consecutive: StreamId::id() is the index
                        let k = sid.id() as usize;
                        let Some(&i) = bidi_specs.get(k) else { continue };
                        seen += 1;
                        shared.lock().unwrap().streams[i].accepted = true;
                        let (sh, n1) = (shared.clone(), net.clone());
                        inner.spawn(async move {
                            let o = read_all(reader, stream_tag(i, false), n1).await;
                            sh.lock().unwrap().streams[i].fwd_read = o;
                        });
                        let (sh, n1) = (shared.clone(), net.clone());
                        let (reply, chunk) = (cfg.streams[i].reply, cfg.streams[i].chunk);
                        inner.spawn(async move {
                            let o = write_all(writer, stream_tag(i, true), reply, chunk, n1).await;
                            sh.lock().unwrap().streams[i].back_write = o;
                        });
                    }
                    Err(e) => {
                        let mut g = shared.lock().unwrap();
                        for &i in &bidi_specs {
                            if !g.streams[i].accepted {
                                g.streams[i].fwd_read.error = Some(format!("accept: {e}"));
                            }
                        }
                        break;
                    }
                }
            }
            while inner.join_next().await.is_some() {}
        });
    }
    if !uni_specs.is_empty() {
        let (conn, shared, net) = (conn.clone(), shared.clone(), net.clone());
        tasks.spawn(async move {
            let mut inner = tokio::task::JoinSet::new();
            let mut seen = 0usize;
            while seen < uni_specs.len() {
                match conn.accept_uni_stream().await {
                    Ok((sid, reader)) => {
                        let k = sid.id() as usize;
                        let Some(&i) = uni_specs.get(k) else { continue };
                        seen += 1;
                        shared.lock().unwrap().streams[i].accepted = true;
                        let (sh, n1) = (shared.clone(), net.clone());
                        inner.spawn(async move {
                            let o = read_all(reader, stream_tag(i, false), n1).await;
                            sh.lock().unwrap().streams[i].fwd_read = o;
                        });
                    }
                    Err(e) => {
                        let mut g = shared.lock().unwrap();
                        for &i in &uni_specs {
                            if !g.streams[i].accepted {
                                g.streams[i].fwd_read.error = Some(format!("accept: {e}"));
                            }
                        }
                        break;
                    }
                }
            }
            while inner.join_next().await.is_some() {}
        });
    }
    while tasks.join_next().await.is_some() {}
}

/// Run the whole workload; returns when both sides finished every stream
/// operation (successfully or with an error), or at `deadline` virtual time,
/// or when the network reports a send storm.
pub async fn run_workload(world: &World, cfg: &WorldCfg, deadline: Duration) -> Transcript {
    run_workload_keep(world, cfg, deadline).await.0
}

/// Like [`run_workload`], also handing back the two connections (client, server) so that the
/// caller can go on with them (close, query the termination error).
pub async fn run_workload_keep(
    world: &World,
    cfg: &WorldCfg,
    deadline: Duration,
) -> (Transcript, (Option<Connection>, Option<Connection>)) {
    let cfg = Arc::new(cfg.clone());
    let shared: Shared = Arc::new(Mutex::new(Transcript {
        streams: (0..cfg.streams.len())
            .map(|i| StreamTranscript {
                spec_index: i,
                ..Default::default()
            })
            .collect(),
        ..Default::default()
    }));
    let net = world.net.clone();

    // server side
    let server_conn: Arc<Mutex<Option<Connection>>> = Arc::new(Mutex::new(None));
    let server_conn_slot = server_conn.clone();
    let server_task = {
        let (listeners, cfg, shared, net) = (world.listeners.clone(), cfg.clone(), shared.clone(), net.clone());
        tokio::spawn(async move {
            let Ok((conn, _name, _pathway, _link)) = listeners.accept().await else {
                return None;
            };
            shared.lock().unwrap().server_accepted = true;
            *server_conn_slot.lock().unwrap() = Some(conn.clone());
            run_side(conn.clone(), Side::Server, cfg, shared, net).await;
            Some(conn)
        })
    };
    let client_conn = world.connect().await;
    let client_task = {
        let (cfg, shared, net) = (cfg.clone(), shared.clone(), net.clone());
        let conn = client_conn.clone();
        tokio::spawn(async move {
            let Ok(conn) = conn else { return None };
            shared.lock().unwrap().connected = true;
            run_side(conn.clone(), Side::Client, cfg, shared, net).await;
            Some(conn)
        })
    };

    let storm = net.wait_storm();
    let both = {
        let shared = shared.clone();
        async move {
            let c = client_task.await.ok().flatten();
            // a server that never saw the connection has no pending connection
            // operation: listening for a connection that never arrives is not a hang
            if !shared.lock().unwrap().server_accepted {
                server_task.abort();
                return (c, None);
            }
            let s = server_task.await.ok().flatten();
            (c, s)
        }
    };
    tokio::pin!(both);
    let conns = tokio::select! {
        r = &mut both => Some(r),
        _ = tokio::time::sleep(deadline) => None,
        _ = storm => None,
    };
    let mut t = shared.lock().unwrap().clone();
    t.timed_out = conns.is_none();
    t.finished_at_us = Some(net.elapsed_us());
    drop(conns);
    use futures::FutureExt;
    if let Ok(c) = &client_conn {
        t.client_terminated = c.terminated().now_or_never().map(|e| format!("{:?}: {}", e.kind(), e));
        t.client_handshaked = c.handshaked().now_or_never().map(|r| r.map_err(|e| format!("{:?}", e.kind())));
    }
    if let Some(c) = server_conn.lock().unwrap().as_ref() {
        t.server_terminated = c.terminated().now_or_never().map(|e| format!("{:?}: {}", e.kind(), e));
    }
    let server = server_conn.lock().unwrap().clone();
    (t, (client_conn.ok(), server))
}
