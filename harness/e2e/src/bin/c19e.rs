//! C19 (connection-level part) — an accepted datagram on an open, uncongested, loss-free
//! connection is put on the wire and reaches the peer application unchanged.
//!
//! Real dquic client + server over a clean simnet link with generated
//! max_datagram_frame_size on both sides; after the handshake one side sends a generated list of
//! datagrams, the peer reads for 1 s of virtual time. Merges its stage into the evidence written
//! by the component check `c19` (run through bin/check C19).

#![allow(deprecated)]

use std::time::Duration;

use e2e::*;
use proptest::prelude::*;
use serde::{Deserialize, Serialize};
use serde_json::json;
use vcore::{CaseCtx, Check, Fail, Outcome, ensure};

#[derive(Debug, Clone, Serialize, Deserialize)]
struct Case {
    lat_us: u32,
    client_max: u32,
    server_max: u32,
    from_client: bool,
    sizes: Vec<u32>,
}

fn case_strategy() -> impl Strategy<Value = Case> {
    let lim = || prop_oneof![Just(0u32), Just(1), Just(2), Just(100), Just(1200), Just(65535)];
    (
        prop_oneof![Just(0u32), Just(1_000), Just(20_000)],
        lim(),
        lim(),
        any::<bool>(),
        proptest::collection::vec(prop_oneof![Just(0u32), 1u32..5, 90u32..110, 1000u32..1300, 1300u32..3000], 1..=5),
    )
        .prop_map(|(lat_us, client_max, server_max, from_client, sizes)| Case { lat_us, client_max, server_max, from_client, sizes })
}

#[derive(Debug, Default, Serialize)]
struct Obs {
    writer: Option<String>,
    sent: Vec<(u32, Result<(), String>)>,
    received: Vec<Vec<u8>>,
    reader: Option<String>,
    datagrams_after_handshake: u32,
}

async fn scenario(case: Case) -> Obs {
    let cfg = WorldCfg {
        net: NetCfg { lat_c2s_us: case.lat_us, lat_s2c_us: case.lat_us, ..Default::default() },
        client: ParamCfg { max_datagram: case.client_max, ..Default::default() },
        server: ParamCfg { max_datagram: case.server_max, ..Default::default() },
        streams: vec![],
    };
    let world = World::build(&cfg, &WorldOpts::default()).await;
    let listeners = world.listeners.clone();
    let server = tokio::spawn(async move { listeners.accept().await.ok().map(|x| x.0) });
    let mut obs = Obs::default();
    let Ok(client) = world.connect().await else { return obs };
    let _ = client.handshaked().await;
    let Ok(Some(server)) = server.await else { return obs };
    let _ = server.handshaked().await;
    tokio::time::sleep(Duration::from_millis(200)).await;
    let before = world.net.summary();
    let (tx, rx) = if case.from_client { (&client, &server) } else { (&server, &client) };
    // the receiving application starts reading first
    let reader = rx.datagram_reader();
    let (got_tx, mut got_rx) = tokio::sync::mpsc::unbounded_channel();
    match reader {
        Ok(Ok(mut r)) => {
            tokio::spawn(async move {
                while let Ok(b) = r.recv().await {
                    if got_tx.send(b.to_vec()).is_err() {
                        break;
                    }
                }
            });
        }
        Ok(Err(e)) => obs.reader = Some(format!("{e}")),
        Err(e) => obs.reader = Some(format!("{e}")),
    }
    match tx.datagram_writer().await {
        Ok(Ok(w)) => {
            for (i, n) in case.sizes.iter().enumerate() {
                let data = vcore::gens::content(500 + i as u64, 0, *n as usize);
                obs.sent.push((*n, w.send(&data).map_err(|e| format!("{e}"))));
            }
        }
        Ok(Err(e)) => obs.writer = Some(format!("{e}")),
        Err(e) => obs.writer = Some(format!("{e}")),
    }
    tokio::time::sleep(Duration::from_secs(1)).await;
    while let Ok(d) = got_rx.try_recv() {
        obs.received.push(d);
    }
    let after = world.net.summary();
    obs.datagrams_after_handshake = (after.sent_c2s + after.sent_s2c) - (before.sent_c2s + before.sent_s2c);
    obs
}

fn oracle(case: &Case, ctx: &mut CaseCtx) -> Outcome {
    let c = case.clone();
    let (r, panics) = run_virtual(|| scenario(c));
    if let Some((loc, msg)) = panics.first() {
        return Err(Fail::new(format!("panic@{loc}"), format!("a task panicked at {loc}: {msg}")));
    }
    let obs = r.ok_or_else(|| Fail::new("panic@main", "scenario panicked"))?;
    let peer_limit = if case.from_client { case.server_max } else { case.client_max };
    let local_limit = if case.from_client { case.client_max } else { case.server_max };
    ctx.class(format!("peer-limit:{peer_limit}"));
    ctx.note(json!({"sent": obs.sent, "received": obs.received.len(), "writer": obs.writer, "wire_datagrams_after_send": obs.datagrams_after_handshake}));
    if peer_limit == 0 {
        ensure!(obs.writer.is_some(), "writer-available-although-disabled", "peer advertises max_datagram_frame_size 0, yet a writer was handed out");
        ctx.class("disabled-by-peer");
        return Ok(());
    }
    ensure!(obs.writer.is_none(), "writer-unavailable", "peer allows {peer_limit}, writer refused: {:?}", obs.writer);
    let mut accepted = vec![];
    for (i, (n, r)) in obs.sent.iter().enumerate() {
        let fits = 1 + *n as u64 <= peer_limit as u64;
        ensure!(r.is_ok() == fits, "send-verdict", "datagram {i} of {n} bytes against peer limit {peer_limit}: {r:?}");
        if fits {
            accepted.push((i, *n));
            if (1 + *n as u64).abs_diff(peer_limit as u64) <= 3 {
                ctx.nontrivial();
            }
        }
    }
    // what arrives is what was sent, in order (sub-sequence), unchanged
    let mut it = accepted.iter();
    for d in &obs.received {
        let ok = it.any(|(i, n)| d.len() == *n as usize && *d == vcore::gens::content(500 + *i as u64, 0, *n as usize));
        ensure!(ok, "received-not-sent", "a datagram of {} bytes was delivered that is not the next accepted one", d.len());
    }
    // an accepted datagram that fits a packet on an open, idle, loss-free connection is observed
    // by the peer within 1 s (the local side must also be able to receive for the reader to exist)
    let deliverable: Vec<_> = accepted.iter().filter(|(_, n)| *n <= 1000).collect();
    if !deliverable.is_empty() && local_limit as u64 >= 0 && obs.reader.is_none() {
        ctx.nontrivial();
        ensure!(
            obs.received.len() >= deliverable.len().min(1),
            "accepted-datagram-never-on-the-wire",
            "{} datagram(s) of <=1000 bytes were accepted on an open, idle, loss-free connection; 1 s later the peer application has received {} and {} datagram(s) were put on the wire at all",
            deliverable.len(),
            obs.received.len(),
            obs.datagrams_after_handshake
        );
    }
    Ok(())
}

fn main() {
    let mut check = Check::from_env("C19", "exploration");
    check.rule(
        "connection-level stage: real dquic client+server over a clean simnet link, max_datagram_frame_size of both sides from {0,1,2,100,1200,65535}, 1-5 datagrams of generated sizes sent by either side after the handshake; \
         the peer application reads for 1 s of virtual time. non-trivial = a datagram within 3 bytes of the peer's limit was judged, or an accepted datagram that fits a packet had to be delivered.",
    );
    check.assume("connection-level stage: loss-free link, nothing else to send (uncongested), one current_thread runtime per case");
    check.max_shrink_iters = 100;
    let n = check.pick(600, 20_000);
    check.stage("e2e-datagrams", n, 16, case_strategy, oracle);
    check.finish();
}
