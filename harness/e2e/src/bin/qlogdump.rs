//! debugging aid (not a check): run the WorldCfg of a replay file with a capturing qlog exporter
//! and print one line per event. Build with `--features telemetry`.
//! usage: qlogdump <replay.json> [filter-substring ...]
use std::{
    sync::{Arc, Mutex},
    time::Duration,
};

use e2e::*;
use qevent::{
    Event, GroupID, VantagePointType,
    telemetry::{ExportEvent, QLog, Span},
};

struct Cap(Arc<Mutex<Vec<Event>>>);
impl ExportEvent for Cap {
    fn emit(&self, event: Event) {
        self.0.lock().unwrap().push(event);
    }
}
struct CapLogger(Arc<Mutex<Vec<Event>>>);
impl QLog for CapLogger {
    fn new_trace(&self, _vp: VantagePointType, group_id: GroupID) -> Span {
        qevent::span!(Arc::new(Cap(self.0.clone())), group_id = group_id)
    }
}

fn main() {
    vcore::install_panic_hook();
    let args: Vec<String> = std::env::args().skip(1).collect();
    let mut v: serde_json::Value = serde_json::from_str(&std::fs::read_to_string(&args[0]).unwrap()).unwrap();
    let w = if v.get("case").is_some() { v["case"]["world"].take() } else { v.take() };
    let cfg: WorldCfg = serde_json::from_value(w).unwrap();
    let events = Arc::new(Mutex::new(Vec::new()));
    let qlog: Arc<dyn QLog + Send + Sync> = Arc::new(CapLogger(events.clone()));
    let (r, panics) = run_virtual(|| async {
        let world = World::build(&cfg, &WorldOpts { qlog: Some(qlog), defer_idle: None }).await;
        let t = run_workload(&world, &cfg, Duration::from_secs(120)).await;
        (t, world.net.summary())
    });
    for e in events.lock().unwrap().iter() {
        let s = serde_json::to_string(e).unwrap();
        if args[1..].is_empty() || args[1..].iter().any(|f| s.contains(f.as_str())) {
            println!("{}", s);
        }
    }
    let (t, s) = r.unwrap();
    println!("virtual {:?}us timed_out={} dgrams={}/{} term={:?}/{:?} panics={}", t.finished_at_us, t.timed_out, s.sent_c2s, s.sent_s2c, t.client_terminated, t.server_terminated, panics.len());
}
