//! C20 — event logging is well-formed and purely observational.
//!
//! Built twice: with feature `telemetry` (dquic/telemetry + qevent/raw_data) as the main
//! binary, and without as `c20-plain`, which the main binary drives as a child for the
//! "logging compiled out" leg of the differential.
//!
//! (a) every event emitted along real client/server connection lifetimes over simnet
//!     (handshake, transfer, loss, close) serialises to a JSON object with the mandatory qlog
//!     fields and parses back to an equal event; the legacy conversion never panics;
//! (b) structure-aware mutation of those real events (numbers/strings set to boundary values):
//!     whatever still parses must round-trip;
//! (c) the same workload and fault schedule under {logging compiled out, no-op exporter,
//!     capturing exporter, capturing + raw data, filtered exporter} gives the same application
//!     transcript and the same datagram count/size sequence.

use std::{
    collections::BTreeSet,
    io::{BufRead, Write},
    sync::{Arc, Mutex},
    time::Duration,
};

use e2e::*;
use proptest::prelude::*;
use qevent::{
    Event, GroupID, VantagePointType,
    telemetry::{ExportEvent, QLog, Span},
};
use serde::{Deserialize, Serialize};
use serde_json::{Value, json};
use vcore::{CaseCtx, Check, Fail, Outcome, ensure};

// ---------------------------------------------------------------------------
// exporter configurations
// ---------------------------------------------------------------------------

#[derive(Debug, Clone, Copy, Serialize, Deserialize, PartialEq, Eq)]
enum Exporter {
    /// NoopLogger (filter_event = false)
    Noop,
    /// capture everything, raw data off
    Capture,
    /// capture everything, raw data on
    CaptureRaw,
    /// capture only the schemes selected by a generated mask
    Filtered(u32),
}

struct CapExporter {
    events: Arc<Mutex<Vec<Event>>>,
    raw: bool,
    mask: Option<u32>,
}

fn scheme_selected(mask: u32, scheme: &str) -> bool {
    let mut h: u32 = 0x811c9dc5 ^ mask;
    for b in scheme.as_bytes() {
        h = (h ^ *b as u32).wrapping_mul(0x01000193);
    }
    (h >> 7) & 1 == 1
}

impl ExportEvent for CapExporter {
    fn emit(&self, event: Event) {
        self.events.lock().unwrap().push(event);
    }
    fn filter_event(&self, scheme: &'static str) -> bool {
        match self.mask {
            None => true,
            Some(m) => scheme_selected(m, scheme),
        }
    }
    fn filter_raw_data(&self) -> bool {
        self.raw
    }
}

struct CapLogger {
    events: Arc<Mutex<Vec<Event>>>,
    raw: bool,
    mask: Option<u32>,
}

impl QLog for CapLogger {
    fn new_trace(&self, _vantage_point: VantagePointType, group_id: GroupID) -> Span {
        let exporter = CapExporter { events: self.events.clone(), raw: self.raw, mask: self.mask };
        qevent::span!(Arc::new(exporter), group_id = group_id)
    }
}

// ---------------------------------------------------------------------------
// the scenario (shared by parent and plain child)
// ---------------------------------------------------------------------------

#[derive(Debug, Clone, Serialize, Deserialize)]
struct Case {
    world: WorldCfg,
    /// close the connection from the client (code) once the workload is done
    close_code: u32,
    filter_mask: u32,
}

#[derive(Debug, Clone, Serialize, Deserialize, PartialEq)]
struct Transcript2 {
    /// per stream: (fwd written, fwd ok, fwd read, fwd eof, back written, back read, back eof, errors)
    streams: Vec<(u64, bool, u64, bool, u64, u64, bool, Vec<Option<String>>)>,
    finished_at_us: Option<u64>,
    timed_out: bool,
    client_term: Option<String>,
    server_term: Option<String>,
    /// (direction, length) of every datagram put on the wire, in order
    wire: Vec<(u8, u16)>,
    panics: Vec<String>,
}

fn run_scenario(case: &Case, exporter: Exporter) -> (Option<Transcript2>, Vec<Event>) {
    let events = Arc::new(Mutex::new(Vec::new()));
    let qlog: Arc<dyn QLog + Send + Sync> = match exporter {
        Exporter::Noop => Arc::new(qevent::telemetry::handy::NoopLogger),
        Exporter::Capture => Arc::new(CapLogger { events: events.clone(), raw: false, mask: None }),
        Exporter::CaptureRaw => Arc::new(CapLogger { events: events.clone(), raw: true, mask: None }),
        Exporter::Filtered(m) => Arc::new(CapLogger { events: events.clone(), raw: false, mask: Some(m) }),
    };
    let cfg = case.world.clone();
    let code = case.close_code;
    let (r, panics) = run_virtual(|| async move {
        let opts = WorldOpts { qlog: Some(qlog), defer_idle: None };
        let w = World::build(&cfg, &opts).await;
        let (t, conns) = run_workload_keep(&w, &cfg, Duration::from_secs(60)).await;
        // close from the client and let both sides notice
        if let Some(c) = &conns.0 {
            let _ = c.close("done", code as u64);
        }
        tokio::time::sleep(Duration::from_secs(2)).await;
        use futures::FutureExt;
        let term = |c: &Option<dquic::prelude::Connection>| {
            c.as_ref().and_then(|c| c.terminated().now_or_never()).map(|e| format!("{:?}", e.kind()))
        };
        let (ct, st) = (term(&conns.0), term(&conns.1));
        // (the simnet server key is Ed25519, so handshake datagram sizes are reproducible too)
        let wire: Vec<(u8, u16)> = w.net.0.lock().unwrap().tap.iter().map(|r| (r.dir as u8, r.len)).collect();
        (t, ct, st, wire)
    });
    let tr = r.map(|(t, ct, st, wire)| Transcript2 {
        streams: t
            .streams
            .iter()
            .map(|s| {
                (
                    s.fwd_write.written,
                    s.fwd_write.shutdown_ok,
                    s.fwd_read.bytes,
                    s.fwd_read.eof,
                    s.back_write.written,
                    s.back_read.bytes,
                    s.back_read.eof,
                    vec![s.fwd_write.error.clone(), s.fwd_read.error.clone(), s.back_write.error.clone(), s.back_read.error.clone()],
                )
            })
            .collect(),
        finished_at_us: t.finished_at_us,
        timed_out: t.timed_out,
        client_term: ct,
        server_term: st,
        wire,
        panics: panics.iter().map(|(l, m)| format!("{l}: {m}")).collect(),
    });
    let ev = std::mem::take(&mut *events.lock().unwrap());
    (tr, ev)
}

// ---------------------------------------------------------------------------
// event well-formedness
// ---------------------------------------------------------------------------

fn check_event(e: &Event, in_connection: bool) -> Result<String, Fail> {
    let v = serde_json::to_value(e).map_err(|err| Fail::new("event-not-serialisable", format!("{err}: {e:?}")))?;
    let Value::Object(o) = &v else {
        return Err(Fail::new("event-not-an-object", format!("{v}")));
    };
    let name = o.get("name").and_then(|n| n.as_str()).map(|s| s.to_string());
    let Some(name) = name else {
        return Err(Fail::new("event-without-name", vcore::truncate(&v.to_string(), 300)));
    };
    ensure!(o.get("time").is_some_and(|t| t.is_number()), format!("event-without-time:{name}"), "{}", vcore::truncate(&v.to_string(), 300));
    ensure!(o.get("data").is_some_and(|d| d.is_object()), format!("event-without-data:{name}"), "{}", vcore::truncate(&v.to_string(), 300));
    if in_connection {
        ensure!(o.get("group_id").is_some_and(|g| g.is_string()), format!("event-without-group-id:{name}"), "{}", vcore::truncate(&v.to_string(), 300));
    }
    let back: Event = serde_json::from_value(v.clone())
        .map_err(|err| Fail::new(format!("event-does-not-parse-back:{name}"), format!("{err}: {}", vcore::truncate(&v.to_string(), 400))))?;
    if &back != e {
        // tolerate only a difference that disappears after one more round (float formatting)
        let v2 = serde_json::to_value(&back).unwrap_or(Value::Null);
        ensure!(v2 == v, format!("event-roundtrip-differs:{name}"), "{} vs {} ({})", vcore::truncate(&v.to_string(), 300), vcore::truncate(&v2.to_string(), 300), vcore::truncate(&format!("{e:?}"), 700));
    }
    // legacy conversion: Ok (serialisable) or Err, never a panic
    let legacy = std::panic::catch_unwind(std::panic::AssertUnwindSafe(|| qevent::legacy::Event::try_from(e.clone())));
    match legacy {
        Err(_) => {
            let p = vcore::take_thread_panics();
            let (loc, msg) = p.last().cloned().unwrap_or_default();
            return Err(Fail::new(format!("legacy-conversion-panics:{name}"), format!("{loc}: {msg}")));
        }
        Ok(Ok(le)) => {
            serde_json::to_string(&le).map_err(|err| Fail::new(format!("legacy-event-not-serialisable:{name}"), format!("{err}")))?;
        }
        Ok(Err(_)) => {}
    }
    Ok(name)
}

/// all leaf paths of a JSON value
fn leaves(v: &Value, path: &mut Vec<String>, out: &mut Vec<Vec<String>>) {
    match v {
        Value::Object(m) => {
            for (k, x) in m {
                path.push(k.clone());
                leaves(x, path, out);
                path.pop();
            }
        }
        Value::Array(a) => {
            for (i, x) in a.iter().enumerate().take(4) {
                path.push(i.to_string());
                leaves(x, path, out);
                path.pop();
            }
        }
        _ => out.push(path.clone()),
    }
}

fn set_leaf(v: &mut Value, path: &[String], new: Value) {
    let mut cur = v;
    for p in &path[..path.len() - 1] {
        cur = match cur {
            Value::Object(m) => m.get_mut(p).unwrap(),
            Value::Array(a) => a.get_mut(p.parse::<usize>().unwrap()).unwrap(),
            _ => return,
        };
    }
    let last = &path[path.len() - 1];
    match cur {
        Value::Object(m) => {
            m.insert(last.clone(), new);
        }
        Value::Array(a) => {
            if let Ok(i) = last.parse::<usize>() {
                a[i] = new;
            }
        }
        _ => {}
    }
}

/// (b): mutate leaves of a real event; whatever still parses must round-trip
fn mutate_event(e: &Event, picks: &[(u16, u8)]) -> Result<u32, Fail> {
    let base = serde_json::to_value(e).unwrap();
    let mut all = vec![];
    leaves(&base, &mut vec![], &mut all);
    all.retain(|p| p.first().map(|s| s.as_str()) == Some("data"));
    if all.is_empty() {
        return Ok(0);
    }
    let mut parsed = 0;
    for (which, how) in picks {
        let path = &all[vcore::gens::idx(*which, all.len())];
        let mut v = base.clone();
        let new = match how % 9 {
            0 => json!(0),
            1 => json!(1),
            2 => json!(u32::MAX),
            3 => json!((1u64 << 62) - 1),
            4 => json!(u64::MAX),
            5 => json!(""),
            6 => json!("\u{0}\"\\ \u{1F600}"),
            7 => json!(1.5e30), // finite in f32 too: JSON cannot carry non-finite numbers (generator precondition)
            _ => json!(-1),
        };
        set_leaf(&mut v, path, new);
        let Ok(e2) = serde_json::from_value::<Event>(v.clone()) else { continue };
        parsed += 1;
        let name = check_event(&e2, false)?;
        let _ = name;
    }
    Ok(parsed)
}

// ---------------------------------------------------------------------------
// plain child
// ---------------------------------------------------------------------------

fn child_main() -> ! {
    let stdin = std::io::stdin();
    let mut out = std::io::stdout();
    for line in stdin.lock().lines() {
        let Ok(line) = line else { break };
        if line.trim().is_empty() {
            continue;
        }
        let case: Case = serde_json::from_str(&line).expect("case json");
        let (tr, _) = run_scenario(&case, Exporter::Noop);
        writeln!(out, "{}", serde_json::to_string(&tr).unwrap()).unwrap();
        out.flush().unwrap();
    }
    std::process::exit(0)
}

struct Child {
    proc: std::process::Child,
    stdin: std::process::ChildStdin,
    stdout: std::io::BufReader<std::process::ChildStdout>,
}

fn spawn_child() -> Option<Child> {
    let path = std::env::var("VERIF_C20_PLAIN").unwrap_or_else(|_| format!("{}/target/release/c20-plain", vcore::verif_root()));
    let mut proc = std::process::Command::new(path)
        .arg("--child")
        .stdin(std::process::Stdio::piped())
        .stdout(std::process::Stdio::piped())
        .spawn()
        .ok()?;
    let stdin = proc.stdin.take()?;
    let stdout = std::io::BufReader::new(proc.stdout.take()?);
    Some(Child { proc, stdin, stdout })
}

thread_local! {
    static CHILD: std::cell::RefCell<Option<Child>> = const { std::cell::RefCell::new(None) };
}

fn run_in_plain_child(case: &Case) -> Result<Option<Transcript2>, Fail> {
    CHILD.with(|c| {
        let mut c = c.borrow_mut();
        if c.is_none() {
            *c = spawn_child();
        }
        let Some(ch) = c.as_mut() else {
            eprintln!("c20: cannot start the plain (telemetry compiled out) build; run through bin/check");
            std::process::exit(2);
        };
        let line = serde_json::to_string(case).unwrap();
        if writeln!(ch.stdin, "{line}").and_then(|_| ch.stdin.flush()).is_err() {
            let _ = ch.proc.kill();
            *c = None;
            return Err(Fail::new("plain-build-died", "the build without telemetry died on this case"));
        }
        let mut resp = String::new();
        match ch.stdout.read_line(&mut resp) {
            Ok(n) if n > 0 => Ok(serde_json::from_str(&resp).unwrap_or(None)),
            _ => {
                let _ = ch.proc.kill();
                *c = None;
                Err(Fail::new("plain-build-died", "the build without telemetry died on this case"))
            }
        }
    })
}

// ---------------------------------------------------------------------------
// generators and oracle
// ---------------------------------------------------------------------------

fn case_strategy() -> impl Strategy<Value = Case> {
    let stream = (any::<bool>(), any::<bool>(), prop_oneof![Just(0u32), 1u32..3000, 3000u32..60_000], 200u16..20_000, 0u32..3000).prop_map(
        |(client, bidi, size, chunk, reply)| StreamSpec {
            opener: if client { Side::Client } else { Side::Server },
            bidi,
            size,
            chunk,
            reply: if bidi { reply } else { 0 },
        },
    );
    let drops = proptest::collection::vec((any::<bool>(), 0u32..40, prop_oneof![3 => Just(Action::Drop), 1 => (0u32..30_000).prop_map(|us| Action::Delay { us }), 1 => (1u8..3, 0u32..5000).prop_map(|(n, gap_us)| Action::Dup { n, gap_us })]), 0..=5);
    (
        prop_oneof![Just(1_000u32), Just(10_000), Just(40_000)],
        drops,
        proptest::collection::vec(stream, 0..=3),
        0u32..100,
        any::<u32>(),
        prop_oneof![Just(1200u16), Just(1500)],
    )
        .prop_map(|(lat, drops, streams, close_code, filter_mask, mss)| Case {
            world: WorldCfg {
                net: NetCfg {
                    lat_c2s_us: lat,
                    lat_s2c_us: lat,
                    mss,
                    rules: drops
                        .into_iter()
                        .map(|(c2s, from, action)| Rule { dir: if c2s { Dir::C2S } else { Dir::S2C }, from, len: 1, action })
                        .collect(),
                    ..Default::default()
                },
                client: ParamCfg::default(),
                server: ParamCfg::default(),
                streams,
            },
            close_code,
            filter_mask,
        })
}

fn oracle(case: &Case, ctx: &mut CaseCtx) -> Outcome {
    // leg 1: capture everything
    let (t_cap, events) = run_scenario(case, Exporter::Capture);
    let t_cap = t_cap.ok_or_else(|| Fail::new("panic@main", "scenario panicked with the capturing exporter"))?;
    if let Some(p) = t_cap.panics.first() {
        let loc = p.split(':').take(2).collect::<Vec<_>>().join(":");
        return Err(Fail::new(format!("panic@{loc}"), format!("with the capturing exporter a task panicked at {p}")));
    }
    // (a) every event is well-formed
    let mut names = BTreeSet::new();
    for e in &events {
        names.insert(check_event(e, true)?);
    }
    ctx.class(format!("event-names:{}", (names.len() / 4) * 4));
    let has_loss = names.iter().any(|n| n.contains("packet_lost"));
    let has_close = names.iter().any(|n| n.contains("connection_closed"));
    if has_loss {
        ctx.class("trace-with-loss");
    }
    if names.len() >= 12 && has_loss && has_close {
        ctx.nontrivial();
    }
    // (b) mutated copies of a few of them
    let mut parsed = 0;
    for (i, e) in events.iter().enumerate().filter(|(i, _)| i % 7 == (case.filter_mask as usize % 7)).take(40) {
        let picks: Vec<(u16, u8)> = (0..6u32)
            .map(|k| {
                let h = (case.filter_mask ^ (i as u32).wrapping_mul(2654435761) ^ k.wrapping_mul(40503)).wrapping_mul(2246822519);
                ((h >> 8) as u16, (h >> 3) as u8)
            })
            .collect();
        parsed += mutate_event(e, &picks)?;
    }
    if parsed > 0 {
        ctx.class("mutated-events-parsed");
    }

    // (c) the other exporter configurations and the build without telemetry
    let mut legs: Vec<(&str, Option<Transcript2>)> = vec![];
    for (name, ex) in [("noop", Exporter::Noop), ("capture+raw", Exporter::CaptureRaw), ("filtered", Exporter::Filtered(case.filter_mask))] {
        let (t, ev) = run_scenario(case, ex);
        for e in &ev {
            let n = check_event(e, true)?;
            // a filter can only remove events
            ensure!(names.contains(&n), "event-only-under-filter", "event {n} emitted under {name} but not by the capture-all run");
        }
        if matches!(ex, Exporter::Noop) {
            ensure!(ev.is_empty(), "noop-exporter-received-events", "{} events", ev.len());
        }
        legs.push((name, t));
    }
    legs.push(("compiled-out", run_in_plain_child(case)?));
    for (name, t) in &legs {
        let Some(t) = t else {
            return Err(Fail::new(format!("panic-in-leg:{name}"), format!("scenario panicked under exporter configuration {name}")));
        };
        ensure!(t.panics.is_empty(), format!("panic-in-leg:{name}"), "{:?}", t.panics);
        ensure!(
            t.streams == t_cap.streams && t.client_term == t_cap.client_term && t.server_term == t_cap.server_term && t.timed_out == t_cap.timed_out,
            format!("behaviour-differs:{name}"),
            "application transcript with the capturing exporter: {:?} / {:?} / {:?}; under {name}: {:?} / {:?} / {:?}",
            t_cap.streams,
            t_cap.client_term,
            t_cap.server_term,
            t.streams,
            t.client_term,
            t.server_term
        );
        if std::env::var_os("VERIF_DEBUG").is_some() && t.wire != t_cap.wire {
            eprintln!("cap : {:?}\n{name}: {:?}", &t_cap.wire[..t_cap.wire.len().min(14)], &t.wire[..t.wire.len().min(14)]);
        }
        ensure!(
            t.wire == t_cap.wire,
            format!("wire-differs:{name}"),
            "datagram sequence differs: {} datagrams with the capturing exporter, {} under {name}; first difference at index {:?}",
            t_cap.wire.len(),
            t.wire.len(),
            t.wire.iter().zip(&t_cap.wire).position(|(a, b)| a != b)
        );
        ensure!(t.finished_at_us == t_cap.finished_at_us, format!("timing-differs:{name}"), "workload finished at {:?} us vs {:?} us", t_cap.finished_at_us, t.finished_at_us);
    }
    if !case.world.net.rules.is_empty() {
        ctx.class("faulted-run");
    }
    ctx.note(json!({"events": events.len(), "names": names, "datagrams": t_cap.wire.len()}));
    Ok(())
}

fn main() {
    if std::env::args().any(|a| a == "--child") {
        vcore::install_panic_hook();
        child_main();
    }
    if !cfg!(feature = "telemetry") {
        eprintln!("c20 must be built with `--features telemetry` (bin/check does); the plain build only serves as --child");
        std::process::exit(2);
    }
    let mut check = Check::from_env("C20", "exploration");
    check.rule(
        "case = workload (0-3 uni/bidi streams), latency, up to 5 single-datagram drop/delay/duplicate faults, client close code, filter mask; run on the real dquic client+server over simnet \
         under five logging configurations: capturing exporter, no-op exporter, capturing with raw data, scheme-filtered exporter, and a second build with the telemetry feature compiled out. \
         Every captured event is checked for the mandatory qlog fields and an exact JSON round trip, real events are mutated field by field (boundary numbers / strings) and whatever still parses must round-trip; \
         all five legs must give the same application transcript, termination errors, completion time and datagram (direction, size) sequence. \
         non-trivial = the captured trace holds >=12 distinct event names including a packet_lost and a connection_closed event. distinct = by hash of the serialised case.",
    );
    check.assume("event timestamps read the wall clock and are not compared between legs");
    check.assume("path migration events are not produced: the workload uses one path per connection");
    check.max_shrink_iters = 60;
    let n = check.pick(1_000, 40_000);
    check.stage("traces-and-purity", n, 16, case_strategy, oracle);
    check.finish();
}
