//! C02 — a connection survives an adversarial network without corrupting data.
//!
//! Whole dquic client+server over simnet; case = workload × transport
//! parameters × fault schedule. Oracles: data safety (always), no panic
//! (always), no send storm (always), no hang (profiles with a sound bound),
//! completion (strictly bounded faults).

use std::time::Duration;

use e2e::*;
use proptest::prelude::*;
use serde::{Deserialize, Serialize};
use serde_json::json;
use vcore::{CaseCtx, Check, Fail, Outcome, ensure};

#[derive(Debug, Clone, Copy, Serialize, Deserialize, PartialEq, Eq)]
enum Profile {
    Clean,
    /// at most 6 loss-equivalent faults in total: completion is required
    Strict,
    /// pseudo-random loss on a finite prefix
    Moderate,
    /// pseudo-random loss forever: safety only
    Perpetual,
    /// everything dropped from some instant: every operation must end with an error
    Blackhole,
}

#[derive(Debug, Clone, Serialize, Deserialize)]
struct Case {
    profile: Profile,
    world: WorldCfg,
}

const DEADLINE_S: u64 = 300;

fn param_cfg() -> impl Strategy<Value = ParamCfg> {
    // a window of 1 byte is legal; the transfer then crawls at one byte per round trip,
    // so case_strategy() scales the stream sizes to the connection window
    let lim = || prop_oneof![
        Just(1u32), Just(100), Just(1000), Just(70_000), Just(1 << 20), Just(1 << 20)
    ];
    let cnt = || prop_oneof![Just(1u32), Just(2), Just(100), Just(100)];
    (lim(), lim(), lim(), lim(), cnt(), cnt(), prop_oneof![Just(0u32), Just(20_000), Just(30_000), Just(60_000)])
        .prop_map(|(max_data, a, b, c, sb, su, idle_ms)| ParamCfg {
            max_data,
            sd_bidi_local: a,
            sd_bidi_remote: b,
            sd_uni: c,
            streams_bidi: sb,
            streams_uni: su,
            idle_ms,
            max_datagram: 0,
        })
}

fn stream_spec() -> impl Strategy<Value = StreamSpec> {
    let size = || prop_oneof![
        3 => Just(0u32),
        3 => 1u32..200,
        3 => 200u32..5000,
        2 => 5000u32..70_000,
        1 => 70_000u32..300_000,
    ];
    (any::<bool>(), any::<bool>(), size(), 1u16..=u16::MAX, size()).prop_map(|(client, bidi, size, chunk, reply)| {
        // keep the number of write calls bounded
        let chunk = chunk.max((size / 200).min(60_000) as u16).max(1);
        StreamSpec {
            opener: if client { Side::Client } else { Side::Server },
            bidi,
            size,
            chunk,
            reply: if bidi { reply } else { 0 },
        }
    })
}

fn lossy_action() -> impl Strategy<Value = Action> {
    prop_oneof![
        4 => Just(Action::Drop),
        2 => (any::<u16>(), 0u8..8).prop_map(|(pos, bit)| Action::Flip { pos, bit }),
        3 => (0u8..32, 0u8..8).prop_map(|(off, bit)| Action::FlipHead { off, bit }),
        1 => (0u16..1000).prop_map(|keep| Action::Truncate { keep }),
        1 => (any::<u32>(), any::<bool>()).prop_map(|(seed, keep_first)| Action::Garbage { seed, keep_first }),
        1 => (50_000u32..3_000_000).prop_map(|us| Action::Delay { us }),
    ]
}

fn benign_action() -> impl Strategy<Value = Action> {
    prop_oneof![
        2 => (0u32..40_000).prop_map(|us| Action::Delay { us }),
        2 => (1u8..3, 0u32..30_000).prop_map(|(n, gap_us)| Action::Dup { n, gap_us }),
        1 => (0u32..2_000_000).prop_map(|us| Action::Replay { us }),
        1 => Just(Action::Reflect),
        1 => (1u8..20, 1_000u32..200_000, any::<bool>()).prop_map(|(n, gap_us, flip)| Action::Ghost { n, gap_us, flip }),
    ]
}

fn dir() -> impl Strategy<Value = Dir> {
    prop_oneof![Just(Dir::C2S), Just(Dir::S2C)]
}

fn pos() -> impl Strategy<Value = u32> {
    prop_oneof![3 => 0u32..2, 4 => 0u32..8, 3 => 0u32..40, 1 => 0u32..400]
}

fn net_cfg(profile: Profile) -> BoxedStrategy<NetCfg> {
    let lat = || prop_oneof![Just(0u32), Just(1_000), Just(10_000), Just(10_000), Just(50_000), Just(200_000)];
    let base = (lat(), lat(), prop_oneof![Just(1200u16), Just(1350), Just(1500), 1200u16..=1500], prop_oneof![Just(1u8), Just(4), Just(64), Just(64)]);
    match profile {
        Profile::Clean => base
            .prop_map(|(a, b, mss, segs)| NetCfg { lat_c2s_us: a, lat_s2c_us: b, mss, max_segments: segs, ..Default::default() })
            .boxed(),
        Profile::Strict => (
            base,
            // ≤6 loss-equivalent datagrams: rules of length 1, at most 6
            proptest::collection::vec((dir(), pos(), lossy_action()), 1..=6),
            proptest::collection::vec((dir(), pos(), 1u32..4, benign_action()), 0..=4),
        )
            .prop_map(|((a, b, mss, segs), lossy, benign)| {
                let mut rules: Vec<Rule> = lossy
                    .into_iter()
                    .map(|(dir, from, action)| Rule { dir, from, len: 1, action })
                    .collect();
                rules.extend(benign.into_iter().map(|(dir, from, len, action)| Rule { dir, from, len, action }));
                NetCfg { lat_c2s_us: a, lat_s2c_us: b, mss, max_segments: segs, rules, ..Default::default() }
            })
            .boxed(),
        Profile::Moderate | Profile::Perpetual => (
            base,
            1u8..=40,
            any::<u32>(),
            20u32..400,
            proptest::collection::vec((dir(), pos(), 1u32..4, prop_oneof![lossy_action(), benign_action()]), 0..=6),
        )
            .prop_map(move |((a, b, mss, segs), loss_pct, loss_seed, budget, rules)| NetCfg {
                lat_c2s_us: a,
                lat_s2c_us: b,
                mss,
                max_segments: segs,
                loss_pct: if profile == Profile::Perpetual { loss_pct.min(50).max(5) } else { loss_pct.min(30) },
                loss_seed,
                loss_budget: if profile == Profile::Perpetual { u32::MAX } else { budget },
                rules: rules.into_iter().map(|(dir, from, len, action)| Rule { dir, from, len, action }).collect(),
                ..Default::default()
            })
            .boxed(),
        Profile::Blackhole => (
            base,
            prop_oneof![Just(0u32), Just(5), Just(30), Just(100), Just(500), Just(3000)],
            proptest::collection::vec((dir(), pos(), 1u32..3, prop_oneof![lossy_action(), benign_action()]), 0..=3),
        )
            .prop_map(|((a, b, mss, segs), bh, rules)| NetCfg {
                lat_c2s_us: a,
                lat_s2c_us: b,
                mss,
                max_segments: segs,
                blackhole_from_ms: Some(bh),
                rules: rules.into_iter().map(|(dir, from, len, action)| Rule { dir, from, len, action }).collect(),
                ..Default::default()
            })
            .boxed(),
    }
}

fn case_strategy() -> BoxedStrategy<Case> {
    prop_oneof![
        1 => Just(Profile::Clean),
        5 => Just(Profile::Strict),
        3 => Just(Profile::Moderate),
        2 => Just(Profile::Perpetual),
        2 => Just(Profile::Blackhole),
    ]
    .prop_flat_map(|profile| {
        (
            Just(profile),
            net_cfg(profile),
            param_cfg(),
            param_cfg(),
            proptest::collection::vec(stream_spec(), 0..=5),
        )
    })
    .prop_map(|(profile, net, client, server, mut streams)| {
        // keep the transfer within ~400 connection-window steps per direction and within ~50 s of
        // round trips per direction (each step of the connection window costs the sender one
        // round trip, and a stream-count limit of 1 serialises the two directions), so that the
        // virtual-time deadline is a sound bound for every generated configuration
        let rtt_us = (net.lat_c2s_us as u64 + net.lat_s2c_us as u64).max(1_000);
        let steps = (50_000_000 / rtt_us).clamp(20, 400);
        for (receiver, params) in [(Side::Client, &client), (Side::Server, &server)] {
            let budget = (params.max_data as u64 / 2).max(1) * steps;
            let towards = |s: &StreamSpec| -> u64 {
                if s.opener == receiver { s.reply as u64 } else { s.size as u64 }
            };
            let total: u64 = streams.iter().map(towards).sum();
            if total > budget {
                for s in streams.iter_mut() {
                    if s.opener == receiver {
                        s.reply = (s.reply as u64 * budget / total) as u32;
                    } else {
                        s.size = (s.size as u64 * budget / total) as u32;
                    }
                }
            }
        }
        Case {
            profile,
            world: WorldCfg { net, client, server, streams },
        }
    })
    .boxed()
}

fn err_kind(s: &str) -> String {
    for k in [
        "NoViablePath", "FlowControl", "StreamLimit", "StreamState", "FinalSize", "FrameEncoding",
        "TransportParameter", "ConnectionIdLimit", "ProtocolViolation", "InvalidToken", "Application",
        "CryptoBufferExceeded", "KeyUpdate", "AeadLimitReached", "ConnectionRefused", "Internal", "Crypto", "None",
    ] {
        if s.starts_with(k) {
            return k.to_string();
        }
    }
    "other".into()
}

struct RunResult {
    t: Transcript,
    sum: TapSummary,
    tap: Vec<TapRecord>,
    panics: Vec<(String, String)>,
}

fn execute(world: &WorldCfg) -> Result<RunResult, Fail> {
    let cfg = world.clone();
    let (r, panics) = run_virtual(|| async move {
        let w = World::build(&cfg, &WorldOpts::default()).await;
        let t = run_workload(&w, &cfg, Duration::from_secs(DEADLINE_S)).await;
        let tap = w.net.0.lock().unwrap().tap.clone();
        (t, w.net.summary(), tap)
    });
    let Some((t, sum, tap)) = r else {
        let (loc, msg) = panics.first().cloned().unwrap_or(("?".into(), "?".into()));
        return Err(Fail::new(format!("panic@{loc}"), format!("main task panicked at {loc}: {msg}")));
    };
    Ok(RunResult { t, sum, tap, panics })
}

fn expected_sizes(spec: &StreamSpec) -> (u64, u64) {
    (spec.size as u64, spec.reply as u64)
}

/// data safety: what is read is a prefix of what was written; EOF only at the end
fn check_safety(case: &Case, t: &Transcript) -> Outcome {
    for (i, st) in t.streams.iter().enumerate() {
        let spec = &case.world.streams[i];
        let (fwd, back) = expected_sizes(spec);
        for (name, r, want) in [("fwd", &st.fwd_read, fwd), ("back", &st.back_read, back)] {
            ensure!(
                r.mismatch_at.is_none(),
                "data-corruption",
                "stream {i} {name}: byte at offset {:?} differs from what the peer wrote",
                r.mismatch_at
            );
            ensure!(
                r.bytes <= want,
                "read-beyond-written",
                "stream {i} {name}: read {} bytes, peer wrote only {want}",
                r.bytes
            );
            ensure!(
                !r.eof || r.bytes == want,
                "early-eof",
                "stream {i} {name}: EOF after {} of {want} bytes",
                r.bytes
            );
        }
    }
    Ok(())
}

fn all_complete(case: &Case, t: &Transcript) -> Result<(), String> {
    if !t.connected {
        return Err("client could not create the connection".into());
    }
    for (i, st) in t.streams.iter().enumerate() {
        let spec = &case.world.streams[i];
        let (fwd, back) = expected_sizes(spec);
        if !(st.fwd_write.shutdown_ok && st.fwd_write.written == fwd) {
            return Err(format!("stream {i}: opener wrote {}/{fwd}, shutdown_ok={}, err={:?}", st.fwd_write.written, st.fwd_write.shutdown_ok, st.fwd_write.error));
        }
        if !(st.fwd_read.eof && st.fwd_read.bytes == fwd) {
            return Err(format!("stream {i}: acceptor read {}/{fwd}, eof={}, err={:?}", st.fwd_read.bytes, st.fwd_read.eof, st.fwd_read.error));
        }
        if spec.bidi {
            if !(st.back_write.shutdown_ok && st.back_write.written == back) {
                return Err(format!("stream {i}: acceptor wrote {}/{back}, err={:?}", st.back_write.written, st.back_write.error));
            }
            if !(st.back_read.eof && st.back_read.bytes == back) {
                return Err(format!("stream {i}: opener read back {}/{back}, eof={}, err={:?}", st.back_read.bytes, st.back_read.eof, st.back_read.error));
            }
        }
    }
    Ok(())
}

fn oracle(case: &Case, ctx: &mut CaseCtx) -> Outcome {
    let r = execute(&case.world)?;
    let (t, sum) = (&r.t, &r.sum);
    if std::env::var_os("VERIF_DEBUG").is_some() {
        eprintln!("{}", serde_json::to_string_pretty(t).unwrap());
        eprintln!("{}", serde_json::to_string(sum).unwrap());
        for rec in &r.tap {
            eprintln!("{}", serde_json::to_string(rec).unwrap());
        }
    }
    let zero_lat = case.world.net.lat_c2s_us == 0 || case.world.net.lat_s2c_us == 0;
    ctx.class(format!("profile:{:?}", case.profile));
    if zero_lat {
        ctx.class("zero-latency");
    }
    ctx.class(format!("streams:{}", case.world.streams.len()));
    if sum.faulted_long > 0 && sum.faulted_short > 0 {
        ctx.class("faulted-handshake+1rtt");
        ctx.nontrivial();
    }
    if sum.tampered > 0 || sum.duplicated > 0 {
        ctx.class("tamper/replay-hit");
        ctx.nontrivial();
    }
    ctx.note(json!({
        "net": sum, "timed_out": t.timed_out, "virtual_us": t.finished_at_us,
        "client_terminated": t.client_terminated, "server_terminated": t.server_terminated,
    }));

    // (b) no panic in any task
    if let Some((loc, msg)) = r.panics.first() {
        return Err(Fail::new(format!("panic@{loc}"), format!("a task panicked at {loc}: {msg}")));
    }
    // (a) data safety
    check_safety(case, t)?;
    // no send storm (datagram cap reached)
    // In a black hole an endpoint with unacknowledged data retransmits for ever (known finding
    // hang:Blackhole*): with much data outstanding that endless retransmission reaches the total
    // datagram cap before the virtual deadline. It is the same failure as the hang and is reported
    // as such; a burst at one instant stays a send storm in every profile.
    let endless_retransmission =
        sum.storm && case.profile == Profile::Blackhole && sum.max_burst_same_instant < sum.burst_cap;
    if sum.storm && !endless_retransmission {
        let sig = if sum.max_burst_same_instant >= sum.burst_cap {
            if zero_lat { "send-storm:burst:zero-latency" } else { "send-storm:burst" }
        } else if zero_lat {
            "send-storm:total:zero-latency"
        } else {
            "send-storm:total"
        };
        return Err(Fail::new(
            sig,
            format!(
                "{} datagrams ({} c2s / {} s2c) by virtual t={:?}us without completing; max {} at one instant",
                sum.sent_c2s + sum.sent_s2c, sum.sent_c2s, sum.sent_s2c, t.finished_at_us, sum.max_burst_same_instant
            ),
        ));
    }
    let complete = all_complete(case, t);
    match case.profile {
        Profile::Clean | Profile::Strict => {
            if let Err(why) = complete {
                let kind = t
                    .client_terminated
                    .as_deref()
                    .or(t.server_terminated.as_deref())
                    .map(err_kind)
                    .unwrap_or_else(|| if t.timed_out { "hang".into() } else { "incomplete".into() });
                // attribution: same schedule with tampered copies replaced by drops
                let mut sig = format!("bounded-not-delivered:{kind}");
                if case.world.net.tampers() {
                    let mut alt = case.world.clone();
                    alt.net = alt.net.tamper_as_drop();
                    if let Ok(r2) = execute(&alt) {
                        let c2 = Case { profile: case.profile, world: alt };
                        if all_complete(&c2, &r2.t).is_ok() {
                            sig = format!("tampered-datagram-broke-connection:{kind}");
                        }
                    }
                }
                return Err(Fail::new(
                    sig,
                    format!(
                        "bounded faults ({} dropped, {} tampered) but not everything was delivered: {why}; client_terminated={:?} server_terminated={:?} timed_out={}",
                        sum.dropped, sum.tampered, t.client_terminated, t.server_terminated, t.timed_out
                    ),
                ));
            }
            ctx.class("completed");
        }
        Profile::Moderate | Profile::Blackhole => {
            // no hang: by the deadline every operation has ended, one way or the other
            if t.timed_out || endless_retransmission {
                // the client only learns the server's idle timeout from its transport
                // parameters: before that, its own value alone is in force
                let negotiated = matches!(t.client_handshaked, Some(Ok(())));
                let no_idle = case.world.client.idle_ms == 0
                    && (case.world.server.idle_ms == 0 || !negotiated);
                return Err(Fail::new(
                    format!("hang:{:?}{}", case.profile, if no_idle { ":no-idle-timeout" } else { "" }),
                    format!(
                        "operations still pending at virtual t={}s ({:?}); client_terminated={:?} server_terminated={:?}; {:?}",
                        DEADLINE_S, case.profile, t.client_terminated, t.server_terminated, complete
                    ),
                ));
            }
            ctx.class(if complete.is_ok() { "completed" } else { "failed-promptly" });
        }
        Profile::Perpetual => {
            ctx.class(if complete.is_ok() {
                "completed"
            } else if t.timed_out {
                "still-running-at-deadline"
            } else {
                "failed-promptly"
            });
        }
    }
    Ok(())
}

fn main() {
    let mut check = Check::from_env("C02", "fault_enumeration");
    check.rule(
        "case = (fault profile, NetCfg fault schedule over per-direction datagram indices, transport parameters of both roles, 0-5 uni/bidi streams opened by either side); \
         generated by proptest, run on the real dquic client+server over an in-memory network under tokio virtual time. \
         non-trivial = a run in which >=1 long-header (handshake) and >=1 short-header (1-RTT) datagram were faulted, or a tamper/duplicate/replay action hit a datagram. \
         distinct = by hash of the serialised case.",
    );
    check.assume("one current_thread tokio runtime per case, paused clock: task interleavings of multi-thread runtimes are not explored");
    check.assume("ciphertext bytes differ between runs (library RNG); the oracle never depends on them");
    check.assume("completion is only required for profiles Clean/Strict (<=6 loss-equivalent datagrams, limits >=1); 'no hang by 300 s virtual' for Moderate/Blackhole; safety + no send storm for Perpetual");
    check.max_shrink_iters = 150;
    let n = check.pick(2_400, 60_000);
    check.stage("simnet", n, 16, case_strategy, oracle);
    check.finish();
}
