//! ad-hoc probe: run the WorldCfg found in a replay/case JSON file (path: argv[1]) with
//! optional overrides `key=value` applied to the JSON (dotted paths), print a summary.
use std::time::Duration;
use e2e::*;
fn set(v: &mut serde_json::Value, path: &str, val: &str) {
    let mut cur = v;
    let parts: Vec<&str> = path.split('.').collect();
    for p in &parts[..parts.len() - 1] {
        cur = if let Ok(i) = p.parse::<usize>() { &mut cur[i] } else { &mut cur[*p] };
    }
    let last = parts[parts.len() - 1];
    let newv: serde_json::Value = serde_json::from_str(val).unwrap_or(serde_json::Value::String(val.into()));
    if let Ok(i) = last.parse::<usize>() { cur[i] = newv } else { cur[last] = newv }
}
fn main() {
    vcore::install_panic_hook();
    let args: Vec<String> = std::env::args().skip(1).collect();
    let mut v: serde_json::Value = serde_json::from_str(&std::fs::read_to_string(&args[0]).unwrap()).unwrap();
    let mut w = if v.get("case").is_some() { v["case"]["world"].take() } else { v.take() };
    for kv in &args[1..] {
        let (k, val) = kv.split_once('=').unwrap();
        set(&mut w, k, val);
    }
    let cfg: WorldCfg = serde_json::from_value(w).unwrap();
    let (r, panics) = run_virtual(|| async {
        let world = World::build(&cfg, &WorldOpts::default()).await;
        let t = run_workload(&world, &cfg, Duration::from_secs(120)).await;
        (t, world.net.summary())
    });
    let (t, s) = r.unwrap();
    println!("virtual {:?}us timed_out={} dgrams={}/{} term={:?} panics={}", t.finished_at_us, t.timed_out, s.sent_c2s, s.sent_s2c, t.client_terminated.as_deref().map(|s| &s[..s.len().min(60)]), panics.len());
    for (i, st) in t.streams.iter().enumerate() {
        println!("  s{i} fw={}/{} ok={} fr={} eof={} | bw={}/{} br={} eof={}", st.fwd_write.written, cfg.streams[i].size, st.fwd_write.shutdown_ok, st.fwd_read.bytes, st.fwd_read.eof, st.back_write.written, cfg.streams[i].reply, st.back_read.bytes, st.back_read.eof);
    }
}
