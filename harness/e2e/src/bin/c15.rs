//! C15 — an unvalidated address never receives more than 3x what it sent.
//!
//! (a) histories on `AntiAmplifier` + `Constraints` alone; (b) the real
//! `Burst` / `Path::send_packets` path: dquic server over simnet with a client
//! whose address is never (or only late) validated; the wire tap keeps
//! cumulative bytes per address in both directions.

use std::time::Duration;

use e2e::*;
use proptest::prelude::*;
use qbase::net::tx::ArcSendWaker;
use qconnection::path::{AntiAmplifier, Constraints};
use serde::{Deserialize, Serialize};
use serde_json::json;
use vcore::{CaseCtx, Check, Fail, Outcome, ensure};

// ---------------------------------------------------------------------------
// (a') real-thread schedules: two receive threads and one burst thread on one AntiAmplifier
// ---------------------------------------------------------------------------

/// `Path::on_packet_rcvd` (receive task) and `Path::send_packets` (burst task) run on different
/// threads. The interleaving is the operating system's, not the generator's: a failure here is
/// real but its replay is only probabilistic.
#[derive(Debug, Clone, Serialize, Deserialize)]
struct TCase {
    /// datagram sizes each receive thread reports, cycled `reps` times
    rcv: [Vec<u16>; 2],
    reps: u16,
    /// bytes the burst thread tries to send per round (clipped to the balance), cycled
    want: Vec<u16>,
}

fn tcase() -> impl Strategy<Value = TCase> {
    let sizes = || proptest::collection::vec(prop_oneof![Just(1200u16), 1u16..1500], 1..40);
    (sizes(), sizes(), 50u16..400, proptest::collection::vec(prop_oneof![3 => 1u16..1500, 1 => Just(u16::MAX)], 1..20))
        .prop_map(|(a, b, reps, want)| TCase { rcv: [a, b], reps, want })
}

fn threads_oracle(case: &TCase, ctx: &mut CaseCtx) -> Outcome {
    use std::sync::{Arc, atomic::{AtomicBool, AtomicU64, Ordering::SeqCst}};
    let aa: Arc<AntiAmplifier> = Arc::new(AntiAmplifier::new(ArcSendWaker::new()));
    // counted *before* on_rcvd is called: an upper bound of what the amplifier may have credited
    let announced = Arc::new(AtomicU64::new(0));
    let done = Arc::new(AtomicBool::new(false));
    let mut receivers = vec![];
    for list in case.rcv.iter().cloned() {
        let (aa, announced, reps) = (aa.clone(), announced.clone(), case.reps);
        receivers.push(std::thread::spawn(move || {
            let mut total = 0u64;
            for _ in 0..reps {
                for n in &list {
                    announced.fetch_add(*n as u64, SeqCst);
                    aa.on_rcvd(*n as usize);
                    total += *n as u64;
                }
            }
            total
        }));
    }
    let sender = {
        let (aa, announced, done, want) = (aa.clone(), announced.clone(), done.clone(), case.want.clone());
        std::thread::spawn(move || -> Result<(u64, u64), (u64, u64, u64)> {
            let (mut sent, mut blocked, mut i) = (0u64, 0u64, 0usize);
            loop {
                let finished = done.load(SeqCst);
                match aa.balance() {
                    Ok(Some(credit)) => {
                        let upper = 3 * announced.load(SeqCst);
                        if credit as u64 > upper.saturating_sub(sent) {
                            return Err((credit as u64, upper, sent));
                        }
                        let n = (want[i % want.len()] as usize).min(credit);
                        i += 1;
                        aa.on_sent(n);
                        sent += n as u64;
                    }
                    Ok(None) => unreachable!("never aborted"),
                    Err(_) => {
                        blocked += 1;
                        if finished {
                            return Ok((sent, blocked));
                        }
                        std::thread::yield_now();
                    }
                }
            }
        })
    };
    let rcvd: u64 = receivers.into_iter().map(|h| h.join().expect("receiver thread")).sum();
    done.store(true, SeqCst);
    let res = sender.join().expect("burst thread");
    match res {
        Err((credit, upper, sent)) => vcore::fail!(
            "threads-credit-exceeds-budget",
            "balance() = {credit} while at most 3 x received = {upper} was ever credited and {sent} already sent"
        ),
        Ok((sent, blocked)) => {
            // the burst thread stopped because balance() reported no credit after the last datagram
            // had been reported: everything received must have bought its allowance
            ensure!(
                sent == 3 * rcvd,
                "threads-credit-lost",
                "burst thread blocked on CREDIT with {sent} bytes sent although {rcvd} bytes were received (3x = {}): {} bytes of allowance vanished or appeared",
                3 * rcvd,
                (3 * rcvd).abs_diff(sent)
            );
            ctx.classes.push(if blocked > 1 { "threads:blocked-midway".into() } else { "threads:never-blocked".into() });
            ctx.nontrivial = blocked > 1;
        }
    }
    Ok(())
}

// ---------------------------------------------------------------------------
// (a) unit histories
// ---------------------------------------------------------------------------

#[derive(Debug, Clone, Serialize, Deserialize)]
enum UOp {
    Rcvd(u32),
    /// one send: ask for the balance, constrain a buffer of `mss` by it and by `quota`,
    /// write `want` bytes (clipped to the constrained length), commit, report `extra`
    /// bytes on top in `on_sent` (datagram padding added after the packets were budgeted)
    Send { mss: u16, quota: u32, want: u16, extra: u16, more: Vec<(u16, bool)> },
    Grant,
    Abort,
}

#[derive(Debug, Clone, Serialize, Deserialize)]
struct UCase {
    ops: Vec<UOp>,
}

fn ucase() -> impl Strategy<Value = UCase> {
    let op = prop_oneof![
        4 => prop_oneof![Just(1200u32), 1u32..1500, 0u32..70000].prop_map(UOp::Rcvd),
        8 => (prop_oneof![Just(1200u16), Just(1500), 25u16..1500], prop_oneof![Just(u32::MAX), 0u32..5000], 0u16..1600, prop_oneof![4 => Just(0u16), 1 => 0u16..1300],
              // further packets coalesced into the same datagram: (bytes wanted, counts as in flight)
              proptest::collection::vec((0u16..800, any::<bool>()), 0..3))
            .prop_map(|(mss, quota, want, extra, more)| UOp::Send { mss, quota, want, extra, more }),
        1 => Just(UOp::Grant),
        1 => Just(UOp::Abort),
    ];
    proptest::collection::vec(op, 0..40).prop_map(|ops| UCase { ops })
}

fn unit_oracle(case: &UCase, ctx: &mut CaseCtx) -> Outcome {
    let aa: AntiAmplifier = AntiAmplifier::new(ArcSendWaker::new());
    let (mut rcvd, mut sent) = (0u64, 0u64);
    let mut state = 0u8; // 0 normal, 1 granted, 2 aborted
    let mut blocked = 0;
    let mut overdrawn = false;
    for (step, op) in case.ops.iter().enumerate() {
        match op {
            UOp::Rcvd(n) => {
                aa.on_rcvd(*n as usize);
                if state == 0 {
                    rcvd += *n as u64;
                }
            }
            UOp::Grant => {
                aa.grant();
                if state == 0 {
                    state = 1;
                }
            }
            UOp::Abort => {
                aa.abort();
                if state == 0 {
                    state = 2;
                }
            }
            UOp::Send { mss, quota, want, extra, more } => {
                let budget = (3 * rcvd).saturating_sub(sent);
                match aa.balance() {
                    Err(_) => {
                        ensure!(state == 0, "unit-blocked-after-grant", "step {step}: balance() blocks in state {state}");
                        ensure!(budget == 0 || overdrawn, "unit-blocked-with-budget", "step {step}: balance() blocks although {budget} bytes of budget remain (rcvd {rcvd}, sent {sent})");
                        blocked += 1;
                    }
                    Ok(None) => ensure!(state == 2, "unit-deactivated", "step {step}: balance() = None in state {state}"),
                    Ok(Some(credit)) => {
                        if state == 0 {
                            // never an allowance beyond 3x received minus sent: in particular no wrap-around
                            // an allowance near 2^64 is the unsigned credit wrapped around after an overdraft
                            ensure!(
                                (credit as u64) < (1 << 63) || credit as u64 <= budget,
                                "unit-credit-wrapped",
                                "step {step}: balance() = {credit} after an overdraft (rcvd {rcvd}, sent {sent}): the credit wrapped around"
                            );
                            ensure!(
                                credit as u64 <= budget,
                                "unit-credit-exceeds-budget",
                                "step {step}: balance() = {credit} but only {budget} may still be sent (rcvd {rcvd}, sent {sent})"
                            );
                            ensure!(budget == 0 || credit > 0 || overdrawn, "unit-zero-credit", "step {step}: zero credit with budget {budget}");
                        } else {
                            ensure!(state == 1 && credit == usize::MAX, "unit-granted", "step {step}: state {state} credit {credit}");
                        }
                        let mut constraints = Constraints::new(credit, *quota as usize);
                        let mut buf = vec![0u8; *mss as usize];
                        let room = constraints.constrain(&mut buf).len();
                        ensure!(room <= credit && room <= *quota as usize && room <= *mss as usize, "unit-constrain", "step {step}: constrained to {room}");
                        let mut n = (*want as usize).min(room);
                        // the first packet of the datagram is ack-eliciting (in flight); the packets
                        // coalesced behind it are budgeted against what `commit` left over, exactly as
                        // PacketsAssembler::assemble does for every packet of a datagram
                        constraints.commit(n, true);
                        for (w, in_flight) in more {
                            let left = constraints.constrain(&mut buf[n..]).len();
                            let k = (*w as usize).min(left);
                            constraints.commit(k, *in_flight);
                            n += k;
                        }
                        if state == 0 {
                            ensure!(
                                n <= credit,
                                "unit-datagram-exceeds-credit",
                                "step {step}: the packets of one datagram add up to {n} bytes although the credit was {credit}"
                            );
                        }
                        let total = n + if n > 0 { *extra as usize } else { 0 };
                        if total > 0 {
                            aa.on_sent(total);
                            if state == 0 {
                                sent += total as u64;
                                if sent > 3 * rcvd {
                                    // the caller overdrew (padding): recorded, the *next* balance must be 0
                                    overdrawn = true;
                                }
                            }
                        }
                    }
                }
            }
        }
    }
    if blocked > 0 {
        ctx.class("blocked-on-credit");
        ctx.nontrivial();
    }
    if overdrawn {
        ctx.class("caller-overdrew");
        ctx.nontrivial();
    }
    if state != 0 {
        ctx.class("granted/aborted");
    }
    Ok(())
}

// ---------------------------------------------------------------------------
// (b) end to end
// ---------------------------------------------------------------------------

#[derive(Debug, Clone, Serialize, Deserialize)]
struct ECase {
    lat_us: u32,
    mss: u16,
    max_segments: u8,
    /// client→server datagrams with index >= drop_from are dropped ...
    drop_from: u32,
    /// ... for this many datagrams (u32::MAX = forever: the address is never validated)
    drop_len: u32,
    /// extra individual server→client drops (make the server retransmit)
    s2c_drops: Vec<u32>,
    stream_size: u32,
}

fn ecase() -> impl Strategy<Value = ECase> {
    (
        prop_oneof![Just(0u32), Just(1000), Just(10_000), Just(50_000)],
        prop_oneof![Just(1200u16), Just(1350), Just(1500), 1200u16..=1500],
        prop_oneof![Just(1u8), Just(4), Just(64)],
        1u32..4,
        // a finite window stays below the 7 consecutive probe timeouts after which the stack gives the path up
        prop_oneof![2 => Just(u32::MAX), 3 => 1u32..5],
        proptest::collection::vec(0u32..12, 0..3),
        prop_oneof![Just(0u32), 1u32..5000, 5000u32..100_000],
    )
        .prop_map(|(lat_us, mss, max_segments, drop_from, drop_len, s2c_drops, stream_size)| ECase {
            lat_us,
            mss,
            max_segments,
            drop_from,
            drop_len,
            s2c_drops,
            stream_size,
        })
}

fn e2e_oracle(case: &ECase, ctx: &mut CaseCtx) -> Outcome {
    let mut rules = vec![Rule {
        dir: Dir::C2S,
        from: case.drop_from,
        len: case.drop_len,
        action: Action::Drop,
    }];
    for i in &case.s2c_drops {
        rules.push(Rule { dir: Dir::S2C, from: *i, len: 1, action: Action::Drop });
    }
    let cfg = WorldCfg {
        net: NetCfg {
            lat_c2s_us: case.lat_us,
            lat_s2c_us: case.lat_us,
            mss: case.mss,
            max_segments: case.max_segments,
            rules,
            ..Default::default()
        },
        client: ParamCfg { idle_ms: 10_000, ..Default::default() },
        server: ParamCfg { idle_ms: 10_000, ..Default::default() },
        streams: vec![StreamSpec { opener: Side::Client, bidi: true, size: case.stream_size, chunk: 4000, reply: case.stream_size / 2 }],
    };
    let cfg2 = cfg.clone();
    let (r, panics) = run_virtual(|| async move {
        let w = World::build(&cfg2, &WorldOpts::default()).await;
        let t = run_workload(&w, &cfg2, Duration::from_secs(40)).await;
        let g = w.net.0.lock().unwrap();
        (t, g.summary.clone(), g.amp_worst, g.amp_samples.clone(), g.amp_frozen)
    });
    if let Some((loc, msg)) = panics.first() {
        return Err(Fail::new(format!("panic@{loc}"), format!("a task panicked at {loc}: {msg}")));
    }
    let (t, sum, worst, samples, frozen) = r.ok_or_else(|| Fail::new("panic@main", "main task panicked"))?;
    if std::env::var_os("VERIF_DEBUG").is_some() {
        eprintln!("worst={worst:?} frozen={frozen} samples={samples:?}\nsum={sum:?}\nterm={:?}/{:?}", t.client_terminated, t.server_terminated);
    }
    let forever = case.drop_len == u32::MAX;
    ctx.class(if forever { "never-validated" } else { "validated-late" });
    ctx.class(format!("segments:{}", case.max_segments));
    ctx.note(json!({"worst": worst, "first_samples": samples.iter().take(8).collect::<Vec<_>>(), "validated": frozen, "net": sum}));
    if let Some(w) = worst {
        // non-trivial: the server had more to send than its budget (it got within one datagram of 3x)
        if w.sent_to + case.mss as u64 > 3 * w.rcvd_from {
            ctx.class("server-reached-its-budget");
            ctx.nontrivial();
        }
        if w.sent_to > 3 * w.rcvd_from {
            let over = w.sent_to - 3 * w.rcvd_from;
            // narrow signatures: how far beyond the limit
            let sig = if w.sent_to > 6 * w.rcvd_from.max(1) {
                "amplification-unbounded"
            } else if over >= case.mss as u64 {
                "amplification-over-one-datagram"
            } else {
                "amplification-within-one-datagram"
            };
            return Err(Fail::new(
                sig,
                format!(
                    "server sent {} bytes to an unvalidated address after receiving {} from it ({}.{:02}x) at t={}us; max_segments={} mss={}",
                    w.sent_to,
                    w.rcvd_from,
                    w.sent_to / w.rcvd_from.max(1),
                    (w.sent_to * 100 / w.rcvd_from.max(1)) % 100,
                    w.t_us,
                    case.max_segments,
                    case.mss
                ),
            ));
        }
    }
    // sending resumes once more is received / the address is validated: with a finite drop
    // window the handshake and the transfer complete
    if !forever {
        let st = &t.streams[0];
        let done = st.fwd_read.eof && st.fwd_read.bytes == case.stream_size as u64 && st.back_read.eof;
        ensure!(
            done,
            "not-resumed-after-validation",
            "client datagrams {}..{} dropped, then a clean link, but the transfer did not complete within 40 s virtual: read {}/{} eof={} client_terminated={:?}",
            case.drop_from,
            case.drop_from + case.drop_len,
            st.fwd_read.bytes,
            case.stream_size,
            st.fwd_read.eof,
            t.client_terminated
        );
        ctx.class("resumed");
    }
    Ok(())
}

fn main() {
    let mut check = Check::from_env("C15", "exploration");
    check.rule(
        "unit stage: histories of on_rcvd / (balance -> Constraints::constrain -> commit -> on_sent, optionally with padding added after budgeting) / grant / abort on the real AntiAmplifier; \
         non-trivial = the sender was blocked on credit or the caller overdrew at least once. \
         e2e stage: real dquic server over simnet; the client's datagrams from index 1..3 on are dropped forever or for a finite window, so its address stays unvalidated while the server wants to (re)send its handshake flight; \
         the wire tap samples (bytes received from, bytes sent to) the client address at every server send until a Handshake/1-RTT packet from the client is delivered; non-trivial = the server got within one datagram of 3x. distinct = by hash of the serialised case.",
    );
    check.assume("the server's address validation is assumed to happen no earlier than the delivery of the first client datagram carrying a Handshake or 1-RTT packet (no tokens, no Retry in these runs)");
    check.assume("aa-threads stage: the interleaving of the receive threads and the burst thread on the lock-free AntiAmplifier is chosen by the operating system, not by the seed; the oracle is exact at quiescence, so a failure is real, but detection and replay are probabilistic. grant()/abort() are not raced.");
    let n = check.pick(60_000, 5_000_000);
    check.stage("aa-unit", n, 16, ucase, unit_oracle);
    let n = check.pick(400, 20_000);
    check.max_shrink_iters = 0;
    check.stage("aa-threads", n, 4, tcase, threads_oracle);
    check.max_shrink_iters = 200;
    let n = check.pick(600, 30_000);
    check.stage("e2e-unvalidated", n, 16, ecase, e2e_oracle);
    check.finish();
}
