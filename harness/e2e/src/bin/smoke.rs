use std::time::{Duration, Instant};

use e2e::*;

fn main() {
    vcore::install_panic_hook();
    let loss: u8 = std::env::args().nth(1).and_then(|s| s.parse().ok()).unwrap_or(0);
    let lat: u32 = std::env::args().nth(2).and_then(|s| s.parse().ok()).unwrap_or(10_000);
    for seed in 0..5u32 {
        let cfg = WorldCfg {
            net: NetCfg { loss_pct: loss, loss_seed: seed, loss_budget: u32::MAX, lat_c2s_us: lat, lat_s2c_us: lat, ..Default::default() },
            client: ParamCfg::default(),
            server: ParamCfg::default(),
            streams: vec![
                StreamSpec { opener: Side::Client, bidi: true, size: 200_000, chunk: 4000, reply: 50_000 },
                StreamSpec { opener: Side::Client, bidi: false, size: 3_000, chunk: 100, reply: 0 },
                StreamSpec { opener: Side::Server, bidi: true, size: 10_000, chunk: 999, reply: 7 },
                StreamSpec { opener: Side::Server, bidi: false, size: 0, chunk: 1, reply: 0 },
            ],
        };
        let t0 = Instant::now();
        let (r, panics) = run_virtual(|| async {
            let world = World::build(&cfg, &WorldOpts::default()).await;
            let t = run_workload(&world, &cfg, Duration::from_secs(120)).await;
            (t, world.net.summary())
        });
        let (t, s) = r.unwrap();
        println!("seed {seed}: wall {:?} virtual {:?}us timed_out={} panics={:?}", t0.elapsed(), t.finished_at_us, t.timed_out, panics);
        println!("  net: {}", serde_json::to_string(&s).unwrap());
        for st in &t.streams {
            println!("  s{} fw={}/{:?} fr={}/{}/{:?} bw={}/{:?} br={}/{}/{:?}", st.spec_index, st.fwd_write.written, st.fwd_write.error, st.fwd_read.bytes, st.fwd_read.eof, st.fwd_read.error, st.back_write.written, st.back_write.error, st.back_read.bytes, st.back_read.eof, st.back_read.error);
        }
    }
}
