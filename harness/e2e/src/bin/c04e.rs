//! C04 (connection-level part) — hostile but well-formed frames and packet numbers reach the REAL
//! frame dispatcher of the Initial space: bounded work, the RFC's error, nothing else disturbed.
//!
//! The component check `comp/src/bin/c04.rs` mirrors the dispatchers of
//! `qconnection/src/space/{initial,handshake,data}.rs` in harness code (they are private closures
//! inside spawned tasks). This stage closes that gap for the Initial space: a real dquic client and
//! server run a handshake plus two stream echoes over simnet while an on-path attacker, who derives
//! the Initial keys from the client's first Destination Connection ID like anybody can (RFC 9001
//! 5.2), injects FORGED Initial packets with generated hostile frames and packet numbers into either
//! endpoint at generated moments of the connection's life (`e2e::net::ForgeRule`).
//!
//! Every case runs in a CHILD PROCESS (`c04e --child`, one JSON request per line on stdin, the
//! convention of c04.rs): a watchdog thread ends the child when the case has used more than the
//! budget of *user-mode CPU time of its thread* (the receive task spins), and the counting
//! allocator refuses the request that takes the case over its allocation budget. Both deaths are
//! verdicts with their own signature (they ARE the property), never exit 2. The oracle (`judge`)
//! runs in the child next to the data.
//!
//! Oracle clauses (see `judge`):
//!  (a) no panic in any task (process-wide hook);
//!  (b) bounded work: CPU watchdog, total allocation budget, bound on any single request;
//!  (c1) a case whose forged packets are all ones the RFC says to drop (packet number the victim
//!       has acknowledged before: RFC 9000 12.3; Initial packet after the victim's key-discard
//!       point: RFC 9001 4.9.1, RFC 9000 17.2.2.1) behaves like the control: nobody terminates,
//!       both echoes complete;
//!  (c2) a terminated endpoint ended with an error kind that some forged frame accounts for
//!       (RFC 9000 12.4 PROTOCOL_VIOLATION, 13.1 PROTOCOL_VIOLATION, 19.3.1 FRAME_ENCODING_ERROR,
//!       19.6 FRAME_ENCODING_ERROR / CRYPTO_BUFFER_EXCEEDED, a TLS alert after garbage CRYPTO
//!       data, the code of a forged CONNECTION_CLOSE);
//!  (c3) a frame that must end the connection, in a packet that certainly reached the victim's
//!       dispatcher, did end it;
//!  (d) data safety: what the application read back is what it wrote.

#![allow(deprecated)]

use std::{
    alloc::{GlobalAlloc, Layout},
    collections::{BTreeMap, BTreeSet},
    io::{BufRead, BufReader, Write},
    process::{Child, ChildStdin, ChildStdout, Command, Stdio},
    sync::{
        Arc, Mutex,
        atomic::{AtomicU64, Ordering},
    },
    time::Duration,
};

use dquic::prelude::*;
use e2e::*;
use futures::FutureExt;
use proptest::prelude::*;
use serde::{Deserialize, Serialize};
use serde_json::{Value, json};
use tokio::io::{AsyncReadExt, AsyncWriteExt};
use vcore::{CaseCtx, Check, Fail, Outcome, gens};

const VMAX: u64 = (1 << 62) - 1;

// ---------------------------------------------------------------------------
// allocator: vcore's counting allocator + a marker line when the per-thread limit is hit
// (same as c04.rs)
// ---------------------------------------------------------------------------

struct Alloc;

fn raw_out(s: &[u8]) {
    unsafe {
        libc_write(1, s.as_ptr(), s.len());
    }
}

unsafe extern "C" {
    #[link_name = "write"]
    fn libc_write(fd: i32, buf: *const u8, n: usize) -> isize;
    #[link_name = "_exit"]
    fn libc_exit(code: i32) -> !;
    fn getrusage(who: i32, usage: *mut RUsage) -> i32;
    fn gettid() -> i32;
}

#[repr(C)]
struct RUsage {
    ru_utime: [i64; 2],
    ru_stime: [i64; 2],
    rest: [i64; 14],
}

const RUSAGE_THREAD: i32 = 1;

/// (user, system) CPU time of the calling thread, ns
fn thread_times_ns() -> (u64, u64) {
    let mut u = RUsage { ru_utime: [0; 2], ru_stime: [0; 2], rest: [0; 14] };
    unsafe { getrusage(RUSAGE_THREAD, &mut u) };
    (
        u.ru_utime[0] as u64 * 1_000_000_000 + u.ru_utime[1] as u64 * 1_000,
        u.ru_stime[0] as u64 * 1_000_000_000 + u.ru_stime[1] as u64 * 1_000,
    )
}

static IN_CHILD: AtomicU64 = AtomicU64::new(0);

fn alloc_failed(size: usize) {
    if IN_CHILD.load(Ordering::Relaxed) == 1 {
        // no allocation here: format the number by hand
        let mut buf = [0u8; 32];
        let mut n = size as u64;
        let mut i = buf.len();
        buf[i - 1] = b'\n';
        i -= 1;
        loop {
            i -= 1;
            buf[i] = b'0' + (n % 10) as u8;
            n /= 10;
            if n == 0 {
                break;
            }
        }
        i -= 2;
        buf[i] = b'A';
        buf[i + 1] = b' ';
        raw_out(&buf[i..]);
        // the request would fail and `handle_alloc_error` abort the process; leave at once
        unsafe { libc_exit(78) };
    }
}

unsafe impl GlobalAlloc for Alloc {
    unsafe fn alloc(&self, layout: Layout) -> *mut u8 {
        let p = unsafe { vcore::alloc::Counting.alloc(layout) };
        if p.is_null() {
            alloc_failed(layout.size());
        }
        p
    }
    unsafe fn dealloc(&self, ptr: *mut u8, layout: Layout) {
        unsafe { vcore::alloc::Counting.dealloc(ptr, layout) }
    }
    unsafe fn alloc_zeroed(&self, layout: Layout) -> *mut u8 {
        let p = unsafe { vcore::alloc::Counting.alloc_zeroed(layout) };
        if p.is_null() {
            alloc_failed(layout.size());
        }
        p
    }
    unsafe fn realloc(&self, ptr: *mut u8, layout: Layout, new_size: usize) -> *mut u8 {
        let p = unsafe { vcore::alloc::Counting.realloc(ptr, layout, new_size) };
        if p.is_null() {
            alloc_failed(new_size);
        }
        p
    }
}

#[global_allocator]
static A: Alloc = Alloc;

// ---------------------------------------------------------------------------
// the case
// ---------------------------------------------------------------------------

/// A packet-number-valued field of a forged ACK frame.
#[derive(Debug, Clone, Copy, Serialize, Deserialize, PartialEq)]
enum Num {
    Abs(u64),
    /// relative to the largest Initial packet number the victim has sent when the packet is forged
    /// (`Sent(0)` = the newest packet really sent, `Sent(1)` = the next, not yet sent one)
    Sent(i8),
}

#[derive(Debug, Clone, Copy, Serialize, Deserialize, PartialEq)]
enum First {
    Abs(u64),
    /// first range reaches exactly down to packet number 0
    ToZero,
    /// first range = largest + 1 + n: reaches below packet number 0
    Below(u8),
}

#[derive(Debug, Clone, Serialize, Deserialize, PartialEq)]
enum HFrame {
    Padding(u8),
    Ping,
    Ack { largest: Num, delay: u64, first: First, ranges: Vec<(u64, u64)>, ecn: Option<(u64, u64, u64)> },
    Crypto { off: u64, len: u16 },
    /// CRYPTO frame of two bytes placed on the type field of the quic_transport_parameters
    /// extension of the ClientHello the attacker saw on the wire (it turns 0x0039 into an unknown
    /// extension): delivered ahead of the genuine Initial packet, the server reads a ClientHello
    /// without the mandatory extension (RFC 9001 8.2). PING if no ClientHello has been seen yet.
    CryptoHideTransportParameters,
    /// CONNECTION_CLOSE of type 0x1c
    CloseQuic { code: u64, ftype: u64, reason: u8 },
    /// a frame type RFC 9000 12.4 (table 3) does not permit in Initial packets; `ty` indexes `FORBIDDEN`
    Forbidden { ty: u8, a: u64, b: u64, c: u64 },
}

/// (name, first byte) of the frame types that must not appear in an Initial packet
const FORBIDDEN: [(&str, u8); 22] = [
    ("RESET_STREAM", 0x04),
    ("STOP_SENDING", 0x05),
    ("NEW_TOKEN", 0x07),
    ("STREAM", 0x08),
    ("STREAM_OFF_LEN_FIN", 0x0f),
    ("MAX_DATA", 0x10),
    ("MAX_STREAM_DATA", 0x11),
    ("MAX_STREAMS_BIDI", 0x12),
    ("MAX_STREAMS_UNI", 0x13),
    ("DATA_BLOCKED", 0x14),
    ("STREAM_DATA_BLOCKED", 0x15),
    ("STREAMS_BLOCKED_BIDI", 0x16),
    ("STREAMS_BLOCKED_UNI", 0x17),
    ("NEW_CONNECTION_ID", 0x18),
    ("RETIRE_CONNECTION_ID", 0x19),
    ("PATH_CHALLENGE", 0x1a),
    ("PATH_RESPONSE", 0x1b),
    ("CONNECTION_CLOSE_APP", 0x1d),
    ("HANDSHAKE_DONE", 0x1e),
    ("DATAGRAM", 0x30),
    ("DATAGRAM_LEN", 0x31),
    ("STREAM_LEN", 0x0a),
];

impl HFrame {
    fn kind(&self) -> String {
        match self {
            HFrame::Padding(_) => "PADDING".into(),
            HFrame::Ping => "PING".into(),
            HFrame::Ack { .. } => "ACK".into(),
            HFrame::Crypto { .. } | HFrame::CryptoHideTransportParameters => "CRYPTO".into(),
            HFrame::CloseQuic { .. } => "CONNECTION_CLOSE".into(),
            HFrame::Forbidden { ty, .. } => FORBIDDEN[gens_idx8(*ty)].0.into(),
        }
    }
}

fn gens_idx8(i: u8) -> usize {
    (i as usize * FORBIDDEN.len()) >> 8
}

#[derive(Debug, Clone, Serialize, Deserialize, PartialEq)]
struct Forged {
    rule: ForgeRule,
    frames: Vec<HFrame>,
}

#[derive(Debug, Clone, Serialize, Deserialize, PartialEq)]
struct Case {
    /// one-way latency of both directions, µs (never 0: virtual instants then separate events)
    lat_us: u32,
    /// bytes the client sends on each of the two echo streams
    echo: u32,
    forged: Vec<Forged>,
}

fn put_vi(b: &mut Vec<u8>, x: u64) {
    let x = x.min(VMAX);
    if x < 1 << 6 {
        b.push(x as u8);
    } else if x < 1 << 14 {
        b.extend_from_slice(&((x as u16) | 0x4000).to_be_bytes());
    } else if x < 1 << 30 {
        b.extend_from_slice(&((x as u32) | 0x8000_0000).to_be_bytes());
    } else {
        b.extend_from_slice(&(x | 0xc000_0000_0000_0000).to_be_bytes());
    }
}

/// What a hostile frame amounts to once its relative numbers are resolved (oracle input).
#[derive(Debug, Clone, Serialize, Deserialize, PartialEq)]
enum Resolved {
    Padding,
    Ping,
    /// `walk`: how many packet numbers `AckFrame::iter` yields (it stops in front of the first
    /// range that reaches below 0)
    Ack { largest: u64, first: u64, ranges: usize, negative: bool, walk: u128 },
    Crypto { off: u64, len: u64 },
    CloseQuic { code: u64 },
    Forbidden { name: String },
}

fn resolve_num(n: Num, sent: Option<u64>) -> u64 {
    match n {
        Num::Abs(v) => v.min(VMAX),
        Num::Sent(d) => {
            let base = sent.map(|x| x as i128).unwrap_or(-1);
            (base + d as i128).clamp(0, VMAX as i128) as u64
        }
    }
}

/// RFC 9000 section 19 layouts. Returns the bytes and the resolved description.
fn encode_frame(f: &HFrame, sent: Option<u64>, tag: u64) -> (Vec<u8>, Resolved) {
    encode_frame_at(f, sent, tag, None)
}

fn encode_frame_at(f: &HFrame, sent: Option<u64>, tag: u64, tp_ext_offset: Option<u64>) -> (Vec<u8>, Resolved) {
    let mut b = vec![];
    match f {
        HFrame::CryptoHideTransportParameters => match tp_ext_offset {
            Some(off) => {
                b.push(0x06);
                put_vi(&mut b, off);
                put_vi(&mut b, 2);
                b.extend([0xff, 0xa5]);
                (b, Resolved::Crypto { off, len: 2 })
            }
            None => {
                b.push(0x01);
                (b, Resolved::Ping)
            }
        },
        HFrame::Padding(n) => {
            b.extend(std::iter::repeat_n(0u8, (*n as usize).max(1)));
            (b, Resolved::Padding)
        }
        HFrame::Ping => {
            b.push(0x01);
            (b, Resolved::Ping)
        }
        HFrame::Ack { largest, delay, first, ranges, ecn } => {
            let largest = resolve_num(*largest, sent);
            let first = match first {
                First::Abs(v) => (*v).min(VMAX),
                First::ToZero => largest,
                First::Below(n) => (largest + 1 + *n as u64).min(VMAX),
            };
            b.push(if ecn.is_some() { 0x03 } else { 0x02 });
            put_vi(&mut b, largest);
            put_vi(&mut b, *delay);
            put_vi(&mut b, ranges.len() as u64);
            put_vi(&mut b, first);
            // RFC 9000 19.3.1: smallest = largest - first; next largest = smallest - gap - 2; ...
            let mut negative = first > largest;
            let mut smallest = largest as i128 - first as i128;
            let mut walk = if negative { 0 } else { first as u128 + 1 };
            for (gap, len) in ranges {
                let (gap, len) = ((*gap).min(VMAX), (*len).min(VMAX));
                put_vi(&mut b, gap);
                put_vi(&mut b, len);
                let hi = smallest - gap as i128 - 2;
                smallest = hi - len as i128;
                if hi < 0 || smallest < 0 {
                    negative = true;
                }
                if !negative {
                    walk += len as u128 + 1;
                }
            }
            if let Some((a, c, d)) = ecn {
                put_vi(&mut b, *a);
                put_vi(&mut b, *c);
                put_vi(&mut b, *d);
            }
            (b, Resolved::Ack { largest, first, ranges: ranges.len(), negative, walk })
        }
        HFrame::Crypto { off, len } => {
            let off = (*off).min(VMAX);
            b.push(0x06);
            put_vi(&mut b, off);
            put_vi(&mut b, *len as u64);
            b.extend(gens::content(900 + tag, off, *len as usize));
            (b, Resolved::Crypto { off, len: *len as u64 })
        }
        HFrame::CloseQuic { code, ftype, reason } => {
            b.push(0x1c);
            put_vi(&mut b, *code);
            put_vi(&mut b, *ftype);
            put_vi(&mut b, *reason as u64);
            b.extend(std::iter::repeat_n(b'x', *reason as usize));
            (b, Resolved::CloseQuic { code: (*code).min(VMAX) })
        }
        HFrame::Forbidden { ty, a, b: bb, c } => {
            let (name, t) = FORBIDDEN[gens_idx8(*ty)];
            b.push(t);
            let small = (*c % 24) as usize;
            match t {
                0x04 => {
                    put_vi(&mut b, *a);
                    put_vi(&mut b, *bb);
                    put_vi(&mut b, *c);
                }
                0x05 | 0x11 | 0x15 => {
                    put_vi(&mut b, *a);
                    put_vi(&mut b, *bb);
                }
                0x07 => {
                    put_vi(&mut b, small as u64 + 1);
                    b.extend(std::iter::repeat_n(0xabu8, small + 1));
                }
                0x08 => {
                    // no offset, no length: extends to the end of the packet (the padding)
                    put_vi(&mut b, *a);
                }
                0x0a => {
                    put_vi(&mut b, *a);
                    put_vi(&mut b, small as u64);
                    b.extend(std::iter::repeat_n(0x5au8, small));
                }
                0x0f => {
                    put_vi(&mut b, *a);
                    put_vi(&mut b, *bb);
                    put_vi(&mut b, small as u64);
                    b.extend(std::iter::repeat_n(0x5au8, small));
                }
                0x10 | 0x12 | 0x13 | 0x14 | 0x16 | 0x17 | 0x19 => put_vi(&mut b, *a),
                0x18 => {
                    put_vi(&mut b, *a);
                    put_vi(&mut b, *bb);
                    let l = 1 + small % 20;
                    b.push(l as u8);
                    b.extend(std::iter::repeat_n(0xc1u8, l));
                    b.extend(std::iter::repeat_n(0x70u8, 16));
                }
                0x1a | 0x1b => b.extend_from_slice(&a.to_be_bytes()),
                0x1d => {
                    put_vi(&mut b, *a);
                    put_vi(&mut b, small as u64);
                    b.extend(std::iter::repeat_n(b'y', small));
                }
                0x1e => {}
                0x30 => b.extend(std::iter::repeat_n(0xd0u8, small)),
                0x31 => {
                    put_vi(&mut b, small as u64);
                    b.extend(std::iter::repeat_n(0xd1u8, small));
                }
                _ => unreachable!(),
            }
            (b, Resolved::Forbidden { name: name.into() })
        }
    }
}

// ----- generators ----------------------------------------------------------

/// Values of the ACK fields that `AckFrame::iter` and its consumers may walk: small ones
/// (<= 2^24: a walk of at most ~50 ms) or astronomic ones (>= 2^40: a walk of at least 20 min),
/// nothing in between. A walk of 2^26..2^38 numbers (0.1 s .. 10 min) is the same defect, but a
/// CPU budget cannot tell it from the scheduling noise of a shared machine, and shrinking would
/// drift into that zone (seen: 2^62 shrunk to 2^31, which takes 4.7 s - a "hang" at a budget of
/// 2.5 s, a pass at 20 s). The component check c04.rs covers the arithmetic of every span.
fn ack_num() -> BoxedStrategy<u64> {
    prop_oneof![
        4 => 0u64..64,
        2 => 64u64..16384,
        1 => proptest::sample::select(vec![16383u64, 16384, 1 << 20, 1 << 24]),
        4 => proptest::sample::select(vec![1u64 << 40, (1 << 61) + 5, VMAX - 1, VMAX]),
    ]
    .boxed()
}

fn num() -> BoxedStrategy<Num> {
    prop_oneof![
        6 => (-2i8..=0).prop_map(Num::Sent),
        3 => (1i8..=3).prop_map(Num::Sent),
        5 => ack_num().prop_map(Num::Abs),
    ]
    .boxed()
}

fn first() -> BoxedStrategy<First> {
    prop_oneof![
        6 => Just(First::Abs(0)),
        2 => (1u64..4).prop_map(First::Abs),
        4 => Just(First::ToZero),
        2 => (0u8..3).prop_map(First::Below),
        3 => ack_num().prop_map(First::Abs),
    ]
    .boxed()
}

fn ranges() -> BoxedStrategy<Vec<(u64, u64)>> {
    prop_oneof![
        8 => Just(vec![]),
        2 => proptest::collection::vec((0u64..3, 0u64..3), 1..4),
        1 => proptest::collection::vec((0u64..2, 0u64..2), 40..300),
        2 => proptest::collection::vec((ack_num(), ack_num()), 1..3),
    ]
    .boxed()
}

fn hframe() -> BoxedStrategy<HFrame> {
    let crypto_off = prop_oneof![
        2 => Just(0u64),
        3 => 0u64..2000,
        2 => 2000u64..70_000,
        1 => prop_oneof![Just(4095u64), Just(4096), Just(65535), Just(65536), Just(1 << 20), Just(1 << 30)],
        2 => (0u64..1200).prop_map(|d| VMAX - d),
        1 => gens::varint(),
    ];
    let crypto_len = prop_oneof![3 => 0u16..4, 3 => 4u16..200, 1 => 200u16..1100];
    let code = prop_oneof![
        3 => 0u64..0x11,
        2 => 0x100u64..0x200,
        1 => prop_oneof![Just(0x11u64), Just(0xff), Just(0x200), Just(VMAX)],
        1 => gens::varint(),
    ];
    prop_oneof![
        1 => (1u8..20).prop_map(HFrame::Padding),
        3 => Just(HFrame::Ping),
        9 => (num(), gens::varint(), first(), ranges(), proptest::option::weighted(0.3, (gens::varint(), gens::varint(), gens::varint())))
            .prop_map(|(largest, delay, first, ranges, ecn)| HFrame::Ack { largest, delay, first, ranges, ecn }),
        5 => (crypto_off, crypto_len).prop_map(|(off, len)| HFrame::Crypto { off, len }),
        2 => Just(HFrame::CryptoHideTransportParameters),
        2 => (code, gens::varint(), 0u8..20).prop_map(|(code, ftype, reason)| HFrame::CloseQuic { code, ftype, reason }),
        4 => (any::<u8>(), gens::varint(), gens::varint(), gens::varint()).prop_map(|(ty, a, b, c)| HFrame::Forbidden { ty, a, b, c }),
    ]
    .boxed()
}

fn forge_pn() -> BoxedStrategy<(ForgePn, u8)> {
    prop_oneof![
        // low numbers: mostly duplicates of the impersonated peer's own packets
        4 => (0u8..4, prop_oneof![Just(1u8), Just(2), Just(4)]).prop_map(|(n, w)| (ForgePn::Low(n), w)),
        // fresh numbers right above what the victim has seen
        8 => (0u32..4, prop_oneof![Just(1u8), Just(2), Just(4), Just(4), Just(4)]).prop_map(|(k, w)| (ForgePn::Above(k), w)),
        3 => (4u32..120, prop_oneof![Just(1u8), Just(2), Just(4)]).prop_map(|(k, w)| (ForgePn::Above(k), w)),
        // jumps: window edges of the 1/2/3/4-byte encodings
        2 => (prop_oneof![Just(127u32), Just(128), Just(300), Just(2000), Just(32767), Just(32768), Just(65535)], prop_oneof![Just(2u8), Just(3), Just(4)])
            .prop_map(|(k, w)| (ForgePn::Above(k), w)),
        1 => (prop_oneof![Just(1u32 << 18), Just((1 << 23) - 1), Just(1 << 24), Just((1u32 << 31) - 2), Just(u32::MAX)], prop_oneof![Just(3u8), Just(4)])
            .prop_map(|(k, w)| (ForgePn::Above(k), w)),
    ]
    .boxed()
}

fn forged(lat_us: u32) -> BoxedStrategy<Forged> {
    let trigger = prop_oneof![
        // the handshake: datagram 0..2 of either direction (see the control case: Initial, Initial
        // ACK + Handshake, first 1-RTT packets)
        12 => 0u32..3,
        1 => 3u32..6,
        // established connection / echo traffic
        2 => 6u32..14,
    ];
    let delay = prop_oneof![
        3 => Just(lat_us),
        3 => Just(0u32),
        3 => Just(lat_us / 2),
        1 => Just(lat_us + lat_us / 2),
        1 => Just(3 * lat_us),
    ];
    (
        any::<bool>(),
        trigger,
        delay,
        any::<bool>(),
        forge_pn(),
        prop_oneof![4 => Just(ForgeDcid::Current), 1 => Just(ForgeDcid::Original)],
        prop_oneof![3 => Just(1200u16), 1 => 1200u16..1452],
        prop_oneof![5 => proptest::collection::vec(hframe(), 1..=1), 3 => proptest::collection::vec(hframe(), 2..=2), 1 => proptest::collection::vec(hframe(), 3..=4)],
    )
        .prop_map(|(c2s, trigger_idx, delay_us, victim_server, (pn, pn_width), dcid, size, frames)| Forged {
            rule: ForgeRule {
                trigger_dir: if c2s { Dir::C2S } else { Dir::S2C },
                trigger_idx,
                delay_us,
                victim: if victim_server { Victim::Server } else { Victim::Client },
                pn,
                pn_width,
                dcid,
                size,
            },
            frames,
        })
        .boxed()
}

fn case_strategy() -> BoxedStrategy<Case> {
    (prop_oneof![Just(1_000u32), Just(10_000), Just(20_000)], prop_oneof![Just(0u32), 1u32..2000, 2000u32..20_000])
        .prop_flat_map(|(lat_us, echo)| {
            (
                Just(lat_us),
                Just(echo),
                prop_oneof![
                    1 => Just(vec![]),
                    8 => proptest::collection::vec(forged(lat_us), 1..=1),
                    8 => proptest::collection::vec(forged(lat_us), 2..=4),
                ],
            )
        })
        .prop_map(|(lat_us, echo, forged)| Case { lat_us, echo, forged })
        .boxed()
}

// ---------------------------------------------------------------------------
// the scenario (child side)
// ---------------------------------------------------------------------------

#[derive(Debug, Clone, Default, Serialize)]
struct Echo {
    started: bool,
    opened: bool,
    wrote: u64,
    shutdown_ok: bool,
    read: u64,
    eof: bool,
    mismatch_at: Option<u64>,
    error: Option<String>,
    timed_out: bool,
}

impl Echo {
    fn complete(&self, want: u64) -> bool {
        self.opened && self.shutdown_ok && self.wrote == want && self.read == want && self.eof && self.mismatch_at.is_none() && self.error.is_none()
    }
}

#[derive(Debug, Clone, Default, Serialize)]
struct Term {
    kind: String,
    text: String,
}

#[derive(Debug, Default, Serialize)]
struct Obs {
    connect_error: Option<String>,
    client_handshaked: Option<Result<(), String>>,
    server_accepted: bool,
    echo: [Echo; 2],
    client_term: Option<Term>,
    server_term: Option<Term>,
    forged: Vec<ForgeRecord>,
    /// per fired rule: the frames that fitted, resolved
    resolved: BTreeMap<usize, Vec<Resolved>>,
    log: Vec<WireRec>,
    log_truncated: bool,
    /// the attacker met an Initial packet it could not decrypt: what it believes about the
    /// connection (and so every "certain" statement of the oracle) is unreliable
    spy_blind: bool,
    spy_blind_why: Option<String>,
    /// largest Initial packet number the client / the server ever sent
    largest_sent: [Option<u64>; 2],
    /// first CONNECTION_CLOSE the client / the server sent in an Initial packet
    first_close: [Option<(u64, String)>; 2],
    virtual_end_us: u64,
    alloc_bytes: u64,
    alloc_calls: u64,
    alloc_peak_request: u64,
    /// user-mode CPU time of the thread that ran the case
    cpu_ms: u64,
    /// system CPU time charged to it (page faults, ...): reported, not judged
    sys_ms: u64,
    datagrams: (u32, u32),
    storm: bool,
}

async fn echo_once(conn: &Connection, i: usize, size: u32) -> Echo {
    let mut e = Echo { started: true, ..Default::default() };
    let opened = match conn.open_bi_stream().await {
        Ok(Some((_sid, rw))) => rw,
        Ok(None) => {
            e.error = Some("open: stream ids exhausted".into());
            return e;
        }
        Err(err) => {
            e.error = Some(format!("open: {err}"));
            return e;
        }
    };
    e.opened = true;
    let (mut reader, mut writer) = opened;
    let data = gens::content(700 + i as u64, 0, size as usize);
    let mut off = 0usize;
    while off < data.len() {
        let n = (data.len() - off).min(4096);
        if let Err(err) = writer.write_all(&data[off..off + n]).await {
            e.error = Some(format!("write: {err}"));
            return e;
        }
        off += n;
        e.wrote = off as u64;
    }
    match writer.shutdown().await {
        Ok(()) => e.shutdown_ok = true,
        Err(err) => {
            e.error = Some(format!("shutdown: {err}"));
            return e;
        }
    }
    let mut buf = vec![0u8; 4096];
    loop {
        match reader.read(&mut buf).await {
            Ok(0) => {
                e.eof = true;
                break;
            }
            Ok(n) => {
                if e.mismatch_at.is_none() {
                    let at = e.read as usize;
                    for k in 0..n {
                        if at + k >= data.len() || data[at + k] != buf[k] {
                            e.mismatch_at = Some((at + k) as u64);
                            break;
                        }
                    }
                }
                e.read += n as u64;
            }
            Err(err) => {
                e.error = Some(format!("read: {err}"));
                break;
            }
        }
    }
    e
}

fn term_of(c: &Connection) -> Option<Term> {
    c.terminated().now_or_never().map(|e| Term { kind: format!("{:?}", e.kind()), text: vcore::truncate(&format!("{e}"), 200) })
}

/// virtual seconds an echo may take: the control needs 0.2 s; recovery from a lost flight by
/// probe timeouts (1 s, doubling) fits several times
const PHASE_TIMEOUT_S: u64 = 12;

async fn scenario(case: Case) -> Obs {
    let cfg = WorldCfg {
        net: NetCfg {
            lat_c2s_us: case.lat_us,
            lat_s2c_us: case.lat_us,
            forge: case.forged.iter().map(|f| f.rule.clone()).collect(),
            spy: true,
            ..Default::default()
        },
        client: ParamCfg::default(),
        server: ParamCfg::default(),
        streams: vec![],
    };
    let dbg = std::env::var_os("VERIF_C04E_PHASES").is_some();
    let unlimited = std::env::var_os("VERIF_C04E_NO_ALLOC_LIMIT").is_some();
    let mark = |what: &str| {
        if dbg {
            let (u, s) = thread_times_ns();
            eprintln!("phase {what}: user {} ms sys {} ms", u / 1_000_000, s / 1_000_000);
        }
    };
    mark("start");
    let world = World::build(&cfg, &WorldOpts::default()).await;
    mark("built");
    let resolved: Arc<Mutex<BTreeMap<usize, Vec<Resolved>>>> = Arc::new(Mutex::new(BTreeMap::new()));
    {
        let frames: Vec<Vec<HFrame>> = case.forged.iter().map(|f| f.frames.clone()).collect();
        let resolved = resolved.clone();
        world.net.0.lock().unwrap().forger = Some(Box::new(move |view: &ForgeView| {
            let mut out = vec![];
            let mut res = vec![];
            for (k, f) in frames[view.rule].iter().enumerate() {
                let (bytes, r) = encode_frame_at(f, view.victim_largest_sent, (view.rule * 8 + k) as u64, view.tp_ext_offset);
                if out.len() + bytes.len() > view.room {
                    break;
                }
                out.extend(bytes);
                res.push(r);
            }
            if out.is_empty() {
                out.push(0x01);
                res.push(Resolved::Ping);
            }
            resolved.lock().unwrap().insert(view.rule, res);
            // the parent attributes a death of this process to the packet handed over last
            raw_out(format!("F {}\n", view.rule).as_bytes());
            out
        }));
    }
    {
        // Allocation budget of the case: ALLOC_TOTAL_LIMIT + ALLOC_PER_DATAGRAM for every datagram
        // either endpoint has sent (an endpoint that is kept from finishing the handshake
        // legitimately retransmits for as long as the scenario runs).
        let start = vcore::alloc::snapshot().bytes;
        let mut g = world.net.0.lock().unwrap();
        g.keep_tap = false;
        if !unlimited {
            g.on_transmit = Some(Box::new(move |n: u32| {
                let cur = vcore::alloc::snapshot().bytes;
                vcore::alloc::set_limit((start + ALLOC_TOTAL_LIMIT + ALLOC_PER_DATAGRAM * n as u64).saturating_sub(cur));
            }));
        }
    }
    let mut obs = Obs::default();

    // server: accept the connection, echo every bidirectional stream
    let server_conn: Arc<Mutex<Option<Connection>>> = Arc::new(Mutex::new(None));
    {
        let (listeners, slot) = (world.listeners.clone(), server_conn.clone());
        tokio::spawn(async move {
            let Ok((conn, ..)) = listeners.accept().await else { return };
            *slot.lock().unwrap() = Some(conn.clone());
            while let Ok((_sid, (mut reader, mut writer))) = conn.accept_bi_stream().await {
                tokio::spawn(async move {
                    let mut all = vec![];
                    let mut buf = vec![0u8; 4096];
                    loop {
                        match reader.read(&mut buf).await {
                            Ok(0) => break,
                            Ok(n) => all.extend_from_slice(&buf[..n]),
                            Err(_) => return,
                        }
                    }
                    if writer.write_all(&all).await.is_ok() {
                        let _ = writer.shutdown().await;
                    }
                });
            }
        });
    }
    let phase = Duration::from_secs(PHASE_TIMEOUT_S);
    let short = Duration::from_secs(2);
    let client = match world.connect().await {
        Ok(c) => c,
        Err(e) => {
            obs.connect_error = Some(e);
            return obs;
        }
    };
    mark("connected");
    // first echo: runs through the handshake
    match tokio::time::timeout(phase, echo_once(&client, 0, case.echo)).await {
        Ok(e) => obs.echo[0] = e,
        Err(_) => obs.echo[0] = Echo { started: true, timed_out: true, ..Default::default() },
    }
    mark("echo1");
    // every rule that was triggered so far is carried out within 3 latencies; let things settle
    tokio::time::sleep(Duration::from_secs(2)).await;
    mark("slept");
    // second echo: valid traffic after the hostile packets
    // (if the first one is still pending the connection is stalled: do not wait long again)
    let second = if obs.echo[0].timed_out { short } else { phase };
    match tokio::time::timeout(second, echo_once(&client, 1, case.echo)).await {
        Ok(e) => obs.echo[1] = e,
        Err(_) => obs.echo[1] = Echo { started: true, timed_out: true, ..Default::default() },
    }
    tokio::time::sleep(Duration::from_secs(2)).await;

    mark("echo2+slept");
    obs.client_handshaked = client.handshaked().now_or_never().map(|r| r.map_err(|e| format!("{:?}", e.kind())));
    obs.client_term = term_of(&client);
    if let Some(s) = server_conn.lock().unwrap().as_ref() {
        obs.server_accepted = true;
        obs.server_term = term_of(s);
    }
    {
        let g = world.net.0.lock().unwrap();
        obs.forged = g.forged.clone();
        obs.log = g.spy.log.clone();
        obs.log_truncated = g.spy.log_truncated || g.spy.blind;
        obs.spy_blind = g.spy.blind;
        obs.spy_blind_why = g.spy.blind_why.clone();
        obs.largest_sent = g.spy.largest_sent;
        obs.first_close = g.spy.first_close.clone();
        obs.datagrams = (g.summary.sent_c2s, g.summary.sent_s2c);
        obs.storm = g.summary.storm;
    }
    obs.resolved = resolved.lock().unwrap().clone();
    obs.virtual_end_us = world.net.elapsed_us();
    obs
}

// ---------------------------------------------------------------------------
// the oracle (child side, next to the data)
// ---------------------------------------------------------------------------

#[derive(Debug, Clone, Serialize, Deserialize, Default)]
struct FailRec {
    sig: String,
    msg: String,
    /// false: a finding the case continues behind (goes to `ctx.known`)
    fatal: bool,
}

#[derive(Debug, Clone, Serialize, Deserialize, Default)]
struct Reply {
    fails: Vec<FailRec>,
    classes: Vec<String>,
    nontrivial: bool,
    note: Option<Value>,
}

impl Reply {
    fn class(&mut self, c: impl Into<String>) {
        self.classes.push(c.into());
    }
    fn finding(&mut self, sig: impl Into<String>, msg: impl Into<String>) {
        self.fails.push(FailRec { sig: sig.into(), msg: msg.into(), fatal: false });
    }
    fn fatal(&mut self, sig: impl Into<String>, msg: impl Into<String>) {
        self.fails.push(FailRec { sig: sig.into(), msg: msg.into(), fatal: true });
    }
}

/// Budgets. A case without any forged packet (handshake + two echoes of <= 20 kB) was measured at
/// <= 2.3 MB requested in total, largest single request 32 552 bytes, 25-50 ms of user CPU time on
/// a quiet machine (the `control` cases of every run re-check this: they run under the same limits);
/// a forged packet is one datagram of <= 1452 bytes.
///  * total: 16 MiB = 7 x the largest control case, + 8 KiB per datagram sent by either endpoint
///    (a handshake stalled by the attacker was measured at 3.5 kB per retransmitted datagram);
///  * single request: 128 KiB = 4 x the largest single request of a control case, + 256 bytes per
///    datagram sent by either endpoint;
///  * CPU: 20 s of user-mode time of the thread = 400 x a control case. The margin is that wide
///    because CPU-time accounting on a shared, overcommitted (virtual) machine was seen to charge
///    the same deterministic case anything between 27 ms and 1.3 s (3.2 s with system time).
///    Once a case of a run has been killed at the full budget, the remaining cases of that run
///    (shrinking, mostly) get `CPU_MS_AFTER_CONFIRMED` (50 x a control case): the verdict exists by
///    then, the smaller budget only bounds the cost of minimising it; replays always use the full
///    budget.
const ALLOC_TOTAL_LIMIT: u64 = 16 << 20;
const ALLOC_PER_DATAGRAM: u64 = 8 << 10;
const ALLOC_PEAK_REQUEST_BOUND: u64 = 128 << 10;
/// state an endpoint legitimately holds grows with the datagrams it handles (sent-packet records
/// of a stalled handshake, ...); a growing Vec requests its whole new capacity at once
const ALLOC_PEAK_PER_DATAGRAM: u64 = 256;
/// one received-packet record (qrecovery/src/journal/rcvd.rs `State`, as seen in refused requests);
/// the deque that holds them may request up to twice the records it needs (capacity doubling)
const RCVD_RECORD_BYTES: u64 = 88;

/// Is a request of `request` bytes what materialising the records of a packet-number jump of
/// `jump` asks for (one record per skipped number, capacity at most doubled)?
fn jump_explains(jump: u64, request: u64) -> bool {
    // (+16: the few genuine packet numbers below the jump)
    let records = jump.saturating_add(16).saturating_mul(RCVD_RECORD_BYTES);
    records >= ALLOC_PEAK_REQUEST_BOUND / 2 && records.saturating_mul(2) >= request
}

const SIG_PN_JUMP: &str = "rcvd-pn-jump-materialises-gap";

#[derive(Debug, Clone, Copy, PartialEq, Eq, Serialize)]
enum Phase {
    /// the victim must still hold its Initial keys: the packet is processed
    Pre,
    /// the discard point falls on the same virtual instant
    Ambiguous,
    /// RFC 9001 4.9.1 / RFC 9000 17.2.2.1: the victim has stopped processing Initial packets
    Post,
}

#[derive(Debug, Clone, Copy, PartialEq, Eq, Serialize)]
enum PnClass {
    /// the victim has acknowledged this number before: a duplicate (RFC 9000 12.3: "A receiver
    /// MUST discard a newly unprotected packet unless it is certain that it has not processed
    /// another packet with the same packet number from the same packet number space")
    Duplicate,
    /// above everything delivered, 4-byte encoding: decodes to itself whatever the victim expects
    FreshCertain,
    Other,
}

#[derive(Debug, Clone, Serialize)]
struct PacketJudgement {
    rule: usize,
    victim: Victim,
    t_us: u64,
    pn: u64,
    jump: u64,
    phase: Phase,
    pn_class: PnClass,
    /// the packet certainly reached the frame dispatcher of the victim (if the victim was alive)
    processed_certain: bool,
    /// the RFC requires the victim to drop the packet without any effect
    must_ignore: bool,
    /// error kinds a frame of this packet may legitimately end the victim with
    may_kinds: BTreeSet<String>,
    /// at least one frame must end the victim (when processed)
    fatal_frames: Vec<String>,
}

fn frames_may_and_fatal(frames: &[Resolved], sent_at_forge: Option<u64>, sent_ever: Option<u64>, r: &mut Reply) -> (BTreeSet<String>, Vec<String>) {
    let mut may = BTreeSet::new();
    let mut fatal = vec![];
    for f in frames {
        match f {
            Resolved::Padding | Resolved::Ping => {}
            Resolved::Ack { largest, negative, walk, ranges, .. } => {
                // RFC 9000 13.1 / property: an ACK of a packet never sent -> PROTOCOL_VIOLATION;
                // 19.3.1: a computed packet number below 0 -> FRAME_ENCODING_ERROR
                let certainly_unsent = sent_ever.is_none_or(|s| *largest > s);
                let certainly_sent = sent_at_forge.is_some_and(|s| *largest <= s);
                if *negative {
                    may.insert("FrameEncoding".to_string());
                }
                if !certainly_sent {
                    may.insert("ProtocolViolation".to_string());
                }
                let class = match (*negative, certainly_unsent, certainly_sent) {
                    (true, true, _) => "ACK:negative+unsent",
                    (true, false, _) => "ACK:negative",
                    (false, true, _) => "ACK:unsent",
                    (false, false, true) => "ACK:valid",
                    (false, false, false) => "ACK:sent-meanwhile?",
                };
                r.class(format!("frame:{class}"));
                if *walk > 1 << 24 {
                    r.class("frame:ACK:walkable-numbers>2^24");
                }
                if *ranges >= 40 {
                    r.class("frame:ACK:ranges>=40");
                }
                if *negative || certainly_unsent {
                    fatal.push(class.to_string());
                }
            }
            Resolved::Crypto { off, len } => {
                if off + len > VMAX {
                    // RFC 9000 19.6
                    may.insert("FrameEncoding".to_string());
                    may.insert("CryptoBufferExceeded".to_string());
                    fatal.push("CRYPTO:beyond-2^62".to_string());
                    r.class("frame:CRYPTO:beyond-2^62");
                } else {
                    // garbage in the TLS byte stream may legitimately end the handshake (TLS alert),
                    // a buffer limit may be hit (RFC 9000 7.5)
                    may.insert("Crypto(*)".to_string());
                    may.insert("CryptoBufferExceeded".to_string());
                    // the ClientHello / EncryptedExtensions carry the transport parameters: changed
                    // bytes there legitimately end the handshake with TRANSPORT_PARAMETER_ERROR
                    may.insert("TransportParameter".to_string());
                    r.class(if *off >= 1 << 30 { "frame:CRYPTO:far-offset" } else if *len == 0 { "frame:CRYPTO:empty" } else { "frame:CRYPTO:near" });
                }
            }
            Resolved::CloseQuic { code } => {
                // the connection ends with the peer's error, whatever it is; an unregistered code
                // cannot be represented by the stack and is answered with FRAME_ENCODING_ERROR
                may.insert("*".to_string());
                fatal.push("CONNECTION_CLOSE".to_string());
                r.class(if *code <= 0x10 || (0x100..0x200).contains(code) { "frame:CONNECTION_CLOSE:registered-code" } else { "frame:CONNECTION_CLOSE:unregistered-code" });
            }
            Resolved::Forbidden { name } => {
                // RFC 9000 12.4: MUST be treated as a connection error of type PROTOCOL_VIOLATION
                may.insert("ProtocolViolation".to_string());
                may.insert("FrameEncoding!forbidden".to_string());
                fatal.push(format!("forbidden:{name}"));
                r.class(format!("frame:forbidden:{name}"));
            }
        }
    }
    (may, fatal)
}

fn kind_allowed(kind: &str, may: &BTreeSet<String>) -> bool {
    may.contains("*") || may.contains(kind) || (kind.starts_with("Crypto(") && may.contains("Crypto(*)"))
}

fn judge(case: &Case, obs: &Obs, panics: &[(String, String)]) -> Reply {
    let mut r = Reply::default();
    let want = case.echo as u64;

    // ---- (a) no panic in any task
    if let Some((loc, msg)) = panics.first() {
        let file = loc.rsplit_once(':').map(|x| x.0).unwrap_or(loc);
        r.fatal(format!("panic@{file}"), format!("a task panicked at {loc}: {msg}"));
    }

    // ---- what the attacker's log says about the connection
    // victim side index: 0 = client, 1 = server; packets of direction C2S are sent by the client
    let sender_dir = |v: Victim| if v == Victim::Client { Dir::C2S } else { Dir::S2C };
    let towards = |v: Victim| if v == Victim::Client { Dir::S2C } else { Dir::C2S };
    let largest_sent_ever = |v: Victim| -> Option<u64> { obs.largest_sent[if v == Victim::Client { 0 } else { 1 }] };
    // discard point of the Initial keys (RFC 9001 4.9.1): the client when it first SENDS a Handshake
    // packet, the server when it first PROCESSES one (first one delivered to it)
    let discard_at = |v: Victim| -> Option<u64> {
        obs.log
            .iter()
            .find(|w| {
                w.dir == Dir::C2S
                    && w.event == if v == Victim::Client { WireEvent::Sent } else { WireEvent::Delivered }
                    && w.packets.iter().any(|p| p.kind == PktKind::Handshake)
            })
            .map(|w| w.t_us)
    };

    let mut judged: Vec<PacketJudgement> = vec![];
    let mut fired = 0;
    for rec in &obs.forged {
        let rule = &case.forged[rec.rule].rule;
        let v = rule.victim;
        let vname = if v == Victim::Client { "client" } else { "server" };
        if let Some(why) = &rec.skipped {
            r.class(format!("forge-skipped:{}", why.split(' ').next().unwrap_or("?")));
            continue;
        }
        fired += 1;
        let view = rec.view.as_ref().expect("view of a delivered forged packet");
        let log_index = rec.log_index.expect("log index");
        let frames = obs.resolved.get(&rec.rule).cloned().unwrap_or_default();
        let phase = match discard_at(v) {
            None => Phase::Pre,
            Some(t) if t > rec.t_us => Phase::Pre,
            Some(t) if t == rec.t_us => Phase::Ambiguous,
            Some(_) => Phase::Post,
        };
        // packet numbers the victim has itself acknowledged in an Initial packet before: it has
        // recorded them as received. (Delivery alone proves nothing: the server was seen to drop
        // the client's second Initial packet, see the report.)
        let acked_by_victim_before = |pn: u64| -> bool {
            obs.log[..log_index]
                .iter()
                .filter(|w| w.dir == sender_dir(v) && w.event == WireEvent::Sent)
                .flat_map(|w| w.packets.iter())
                .filter(|p| p.kind == PktKind::Initial)
                .flat_map(|p| p.frames.iter())
                .any(|f| matches!(f, FrameSum::Ack { ranges, valid: true, .. } if ranges.iter().any(|(lo, hi)| (*lo..=*hi).contains(&pn))))
        };
        let genuine_delivered_before = obs.log[..log_index].iter().any(|w| w.dir == towards(v) && w.event == WireEvent::Delivered && w.t_us < rec.t_us);
        let pn = rec.pn_decoded_model;
        let jump = pn.saturating_sub(view.victim_expected);
        let earlier_forged_towards_victim = judged.iter().any(|j| j.victim == v);
        let pn_class = if acked_by_victim_before(pn) {
            PnClass::Duplicate
        } else if pn >= view.victim_expected && rec.pn_on_wire_bytes == 4 && jump < (1 << 31) {
            PnClass::FreshCertain
        } else {
            PnClass::Other
        };
        // (a truncated log - more than 600 long-header datagrams - supports no certain statement)
        // Only a duplicate packet number is a "must ignore" of the property's own text. A packet that
        // arrives after the point at which RFC 9001 §4.9.1 tells the victim to discard its Initial
        // keys is *not* judged that way: the property (C04) says nothing about key discard, and this
        // stack keeps the keys for the life of the connection (observed; DESIGN.md §10.5), so such a
        // packet is judged like any other processed packet (error kind, bounded work, data safety).
        let must_ignore = pn_class == PnClass::Duplicate && !obs.log_truncated;
        let processed_certain = phase == Phase::Pre
            && !obs.log_truncated
            && pn_class == PnClass::FreshCertain
            && !rec.scid_invented
            && !rec.dcid_is_original
            // the server's connection exists once a genuine Initial packet has been delivered; the
            // client's exists from the start
            && (v == Victim::Client || genuine_delivered_before)
            && !earlier_forged_towards_victim;
        let (may_kinds, fatal_frames) = frames_may_and_fatal(&frames, view.victim_largest_sent, largest_sent_ever(v), &mut r);
        r.class(format!("victim:{vname}"));
        r.class(format!("phase:{phase:?}"));
        r.class(format!("pn:{pn_class:?}"));
        r.class(match jump {
            0..=3 => "pn-jump:0-3",
            4..=127 => "pn-jump:4-127",
            128..=32767 => "pn-jump:128-32767",
            32768..=1_000_000 => "pn-jump:32768-10^6",
            _ => "pn-jump:>10^6",
        });
        if rec.scid_invented {
            r.class("scid:invented(server-not-seen-yet)");
        }
        if rec.dcid_is_original {
            r.class("dcid:original");
        }
        if processed_certain {
            r.class("processed:certain");
        }
        if must_ignore {
            r.class("must-ignore");
        }
        judged.push(PacketJudgement {
            rule: rec.rule,
            victim: v,
            t_us: rec.t_us,
            pn,
            jump,
            phase,
            pn_class,
            processed_certain,
            must_ignore,
            may_kinds,
            fatal_frames,
        });
    }
    r.class(format!("forged-packets-delivered:{fired}"));
    if obs.log_truncated {
        r.class(if obs.spy_blind { "attacker-blind(no-certain-statement)" } else { "log-truncated(no-certain-statement)" });
    }
    if fired < case.forged.len() {
        r.class("some-rule-never-triggered-or-skipped");
    }

    // Termination as the application sees it (`Connection::terminated`), or - the server hands a
    // connection to the application only once the handshake is complete - the CONNECTION_CLOSE
    // frame the endpoint put into an Initial packet of its own.
    let wire_close = |v: Victim| -> Option<Term> {
        obs.first_close[if v == Victim::Client { 0 } else { 1 }].as_ref().map(|(_, text)| {
            let kind = text.split("error_kind: ").nth(1).and_then(|t| t.split([',', ' ']).next()).unwrap_or("?").to_string();
            Term { kind, text: format!("CONNECTION_CLOSE sent in an Initial packet: {}", vcore::truncate(text, 160)) }
        })
    };
    let client_term = obs.client_term.clone().or_else(|| wire_close(Victim::Client));
    let server_term = obs.server_term.clone().or_else(|| wire_close(Victim::Server));
    let terms = [(Victim::Client, &client_term), (Victim::Server, &server_term)];
    let echoes_ok = obs.echo[0].complete(want) && obs.echo[1].complete(want);
    r.class(format!("echo1:{}", if obs.echo[0].complete(want) { "ok" } else if obs.echo[0].timed_out { "pending-at-deadline" } else { "failed" }));
    r.class(format!("echo2:{}", if obs.echo[1].complete(want) { "ok" } else if obs.echo[1].timed_out { "pending-at-deadline" } else { "failed" }));
    for (v, t) in &terms {
        let vname = if *v == Victim::Client { "client" } else { "server" };
        match t {
            Some(t) => r.class(format!("{vname}-terminated:{}", t.kind)),
            None => r.class(format!("{vname}-alive")),
        }
    }

    // ---- data safety, always: what the application read back is what it wrote ("corrupts state for
    // later valid frames" as far as an application can see it)
    for (i, e) in obs.echo.iter().enumerate() {
        if let Some(at) = e.mismatch_at {
            r.fatal("echo-data-corrupted", format!("echo {i}: byte {at} read back differs from what was written"));
        }
        if e.read > want || (e.eof && e.read != want && e.error.is_none()) {
            r.fatal("echo-length-wrong", format!("echo {i}: read {} bytes back (eof={}) of {want} written", e.read, e.eof));
        }
    }
    if obs.storm {
        r.fatal("send-storm-after-forged-packet", format!("{:?} datagrams sent: the datagram cap of the network was reached", obs.datagrams));
    }

    // ---- (b) bounded memory: besides the hard limit (the process dies there) no single request
    // may be large: nothing a 1.5 kB datagram legitimately causes needs a contiguous 512 kB
    let peak_bound = ALLOC_PEAK_REQUEST_BOUND + ALLOC_PEAK_PER_DATAGRAM * (obs.datagrams.0 + obs.datagrams.1) as u64;
    if obs.alloc_peak_request > peak_bound {
        // (jumps add up: the window of received-packet records spans all of them)
        let culprit: u64 = judged.iter().filter(|j| j.pn_class != PnClass::Duplicate).map(|j| j.jump).sum();
        if jump_explains(culprit, obs.alloc_peak_request) {
            r.finding(
                SIG_PN_JUMP,
                format!(
                    "a forged Initial packet whose number is {culprit} above the largest received made the victim request {} bytes at once (>= {RCVD_RECORD_BYTES} bytes per skipped number; bound for any single request of this case: {peak_bound})",
                    obs.alloc_peak_request
                ),
            );
            r.class("alloc:pn-jump-gap-materialised");
        } else {
            r.fatal(
                "alloc-single-request-unbounded",
                format!("largest single allocation request of the case: {} bytes (bound {peak_bound}); largest packet-number jump forged: {culprit}", obs.alloc_peak_request),
            );
        }
    }

    // ---- (c) verdicts
    if judged.is_empty() {
        // control: nothing hostile reached anybody
        r.class("control");
        for (v, t) in &terms {
            if let Some(t) = t {
                r.fatal("control-terminated", format!("no forged packet was delivered, yet the {v:?} terminated: {} / {}", t.kind, t.text));
            }
        }
        if !echoes_ok {
            r.fatal("control-echo-incomplete", format!("no forged packet was delivered, yet the echoes did not complete: {:?}", obs.echo));
        }
        return r;
    }
    r.nontrivial = judged.iter().any(|j| j.processed_certain || j.must_ignore);

    // (c1) every forged packet of the case is one the RFC says to drop: nothing may change
    if judged.iter().all(|j| j.must_ignore) {
        r.class("all-must-ignore");
        let after_discard = judged.iter().any(|j| j.phase == Phase::Post && j.pn_class != PnClass::Duplicate);
        let mut broken = vec![];
        for (v, t) in &terms {
            if let Some(t) = t {
                broken.push(format!("{v:?} terminated with {} ({})", t.kind, t.text));
            }
        }
        if !echoes_ok {
            broken.push(format!("echoes incomplete: {:?} / {:?}", obs.echo[0].error, obs.echo[1].error));
        }
        if !broken.is_empty() {
            let what = judged
                .iter()
                .map(|j| format!("rule {} -> {:?} at {}us pn {} ({:?}, {:?}) frames {:?}", j.rule, j.victim, j.t_us, j.pn, j.phase, j.pn_class, obs.resolved.get(&j.rule)))
                .collect::<Vec<_>>()
                .join("; ");
            let _ = after_discard;
            r.fatal("duplicate-packet-number-took-effect", format!("only duplicates of already delivered packet numbers were forged, yet: {}. Packets: {what}", broken.join(", ")));
        } else {
            r.class("all-must-ignore:no-effect");
        }
        return r;
    }

    // (c2) a terminated endpoint ended with an error kind some forged frame accounts for
    let mut may_all: BTreeSet<String> = BTreeSet::new();
    for j in &judged {
        may_all.extend(j.may_kinds.iter().cloned());
        // a packet number the genuine peer never used is acknowledged by the victim sooner or
        // later: the genuine peer then sees an ACK of a packet it never sent (PROTOCOL_VIOLATION);
        // likewise a forged ACK can make the victim's own view inconsistent
        if j.pn_class != PnClass::Duplicate {
            may_all.insert("ProtocolViolation".to_string());
        }
    }
    let post_only_extra: bool = judged.iter().any(|j| j.phase == Phase::Post);
    for (v, t) in &terms {
        let Some(t) = t else { continue };
        if t.kind == "FrameEncoding" && may_all.contains("FrameEncoding!forbidden") && (t.text.contains("Wrong frame type") || !kind_allowed("FrameEncoding", &may_all)) {
            // RFC 9000 12.4 prescribes PROTOCOL_VIOLATION; this stack reports FRAME_ENCODING_ERROR.
            // C04's text does not cover frame types forbidden in a packet type: the deviation is
            // C03's (known finding `forbidden-frame-type-reported-as-frame-encoding`) and is only
            // classified here. Either way the connection ends, which is what this stage needs.
            r.class("forbidden-frame:FrameEncoding(C03 finding)");
            continue;
        }
        if !kind_allowed(&t.kind, &may_all) {
            // idle timeout of a handshake the attacker has legitimately stalled
            if t.kind == "NoViablePath" || t.text.to_lowercase().contains("idle") || t.text.to_lowercase().contains("timeout") {
                r.class(format!("{v:?}-terminated:timeout-after-disruption"));
                continue;
            }
            r.fatal(
                format!("terminated-with-unaccounted-error:{}", t.kind),
                format!("{v:?} terminated with {} ({}); the forged frames account only for {may_all:?}", t.kind, t.text),
            );
        }
    }

    // (c3) a frame that must end the connection, in a packet that certainly reached the dispatcher
    for j in judged.iter().filter(|j| j.processed_certain && !j.fatal_frames.is_empty()) {
        let t = terms.iter().find(|(v, _)| *v == j.victim).unwrap().1;
        // A server that the application has not accepted yet shows its end only through a
        // CONNECTION_CLOSE in an Initial packet of its own. A forged CONNECTION_CLOSE puts it into the
        // draining state, in which it sends nothing: its end is then not observable.
        let drained_silently = j.victim == Victim::Server
            && !obs.server_accepted
            && judged.iter().any(|k| k.victim == Victim::Server && k.fatal_frames.iter().any(|f| f.starts_with("CONNECTION_CLOSE")));
        if t.is_none() && drained_silently {
            r.class("must-terminate:unobservable(draining)");
            continue;
        }
        match t {
            None => r.fatal(
                format!("hostile-frame-accepted:{}", j.fatal_frames[0].split(':').next().unwrap_or("?")),
                format!(
                    "forged Initial packet (rule {}, pn {}, {}us) carried {:?} and reached the {:?} before it could discard its Initial keys, yet the {:?} never terminated; frames {:?}",
                    j.rule, j.pn, j.t_us, j.fatal_frames, j.victim, j.victim, obs.resolved.get(&j.rule)
                ),
            ),
            Some(_) => r.class("must-terminate:held"),
        }
    }
    // packets after the discard point mixed with others: count what happened, the finding (if
    // any) is reported from pure cases above
    if post_only_extra {
        r.class("mixed-with-post-discard-packets");
    }
    // (c4) nothing hostile had a certain effect and nobody terminated: later valid traffic works
    if terms.iter().all(|(_, t)| t.is_none()) {
        r.class(if echoes_ok { "survived:echoes-ok" } else { "survived:echoes-incomplete" });
    }
    r
}

// ---------------------------------------------------------------------------
// child process: worker + watchdog
// ---------------------------------------------------------------------------

#[derive(Debug, Clone, Serialize, Deserialize)]
struct Request {
    case: Case,
    debug: bool,
    cpu_ms: u64,
}

/// user-mode CPU time (clock ticks of 10 ms, /proc/self/task/<tid>/stat field 14) of the worker
/// thread beyond which the case is declared spinning; 0 = no case running.
/// User time only: on a machine under memory pressure the kernel's reclaim work inside page faults
/// is charged to the faulting thread as system time (a 40 ms case was seen with 3 s of it).
static DEADLINE_UTICKS: AtomicU64 = AtomicU64::new(0);
static WORKER_TID: AtomicU64 = AtomicU64::new(0);

fn utime_ticks_of(tid: u64) -> Option<u64> {
    let stat = std::fs::read_to_string(format!("/proc/self/task/{tid}/stat")).ok()?;
    let rest = &stat[stat.rfind(')')? + 1..];
    rest.split_ascii_whitespace().nth(11)?.parse().ok()
}

fn start_watchdog() {
    std::thread::spawn(|| {
        loop {
            std::thread::sleep(std::time::Duration::from_millis(50));
            let d = DEADLINE_UTICKS.load(Ordering::SeqCst);
            let tid = WORKER_TID.load(Ordering::SeqCst);
            if d != 0 && tid != 0 && utime_ticks_of(tid).is_some_and(|t| t > d) {
                raw_out(b"C\n");
                unsafe { libc_exit(77) };
            }
        }
    });
}

const CPU_MS_FULL: u64 = 20_000;
const CPU_MS_AFTER_CONFIRMED: u64 = 2_500;
static HANG_CONFIRMED: AtomicU64 = AtomicU64::new(0);
static REPLAY: AtomicU64 = AtomicU64::new(0);

fn cpu_budget_ms() -> u64 {
    let full = std::env::var("VERIF_C04E_CPU_MS").ok().and_then(|s| s.parse().ok()).unwrap_or(CPU_MS_FULL);
    if HANG_CONFIRMED.load(Ordering::Relaxed) != 0 && REPLAY.load(Ordering::Relaxed) == 0 { full.min(CPU_MS_AFTER_CONFIRMED) } else { full }
}

fn child_main() -> ! {
    IN_CHILD.store(1, Ordering::SeqCst);
    vcore::install_panic_hook();
    start_watchdog();
    let worker = std::thread::Builder::new()
        .stack_size(64 << 20)
        .spawn(move || {
            let tid = unsafe { gettid() } as u64;
            WORKER_TID.store(tid, Ordering::SeqCst);
            // key material, certificates, process globals: not part of any case's budget
            init_process_globals();
            let stdin = std::io::stdin();
            let mut line = String::new();
            loop {
                line.clear();
                match stdin.lock().read_line(&mut line) {
                    Ok(0) | Err(_) => break,
                    Ok(_) => {}
                }
                let req: Request = match serde_json::from_str(line.trim()) {
                    Ok(r) => r,
                    Err(e) => {
                        raw_out(format!("X bad request: {e}\n").as_bytes());
                        continue;
                    }
                };
                raw_out(b"B\n");
                let t0 = thread_times_ns();
                DEADLINE_UTICKS.store(utime_ticks_of(tid).unwrap_or(0) + (req.cpu_ms / 10).max(1), Ordering::SeqCst);
                vcore::alloc::set_limit(if std::env::var_os("VERIF_C04E_NO_ALLOC_LIMIT").is_some() { u64::MAX / 2 } else { ALLOC_TOTAL_LIMIT });
                let case = req.case.clone();
                let ((obs, panics), snap) = vcore::alloc::measure(|| run_virtual(|| scenario(case)));
                vcore::alloc::clear_limit();
                DEADLINE_UTICKS.store(0, Ordering::SeqCst);
                let t1 = thread_times_ns();
                let (cpu_ms_used, sys_ms_used) = ((t1.0 - t0.0) / 1_000_000, (t1.1 - t0.1) / 1_000_000);
                raw_out(b"E\n");
                let reply = match obs {
                    Some(mut obs) => {
                        obs.alloc_bytes = snap.bytes;
                        obs.alloc_calls = snap.calls;
                        obs.alloc_peak_request = snap.peak_request;
                        obs.cpu_ms = cpu_ms_used;
                        obs.sys_ms = sys_ms_used;
                        if req.debug {
                            eprintln!("{}", serde_json::to_string_pretty(&obs).unwrap());
                        }
                        let mut reply = judge(&req.case, &obs, &panics);
                        if let (Ok(dir), Some(f)) = (std::env::var("VERIF_C04E_DUMP_FAILS"), reply.fails.iter().find(|f| f.fatal)) {
                            static N: AtomicU64 = AtomicU64::new(0);
                            let path = format!("{dir}/fail-{}-{}.json", std::process::id(), N.fetch_add(1, Ordering::Relaxed));
                            let _ = std::fs::write(path, serde_json::to_string_pretty(&json!({"sig": f.sig, "msg": f.msg, "case": req.case, "obs": obs})).unwrap());
                        }
                        reply.class(match obs.cpu_ms {
                            0..=49 => "cpu:<50ms",
                            50..=199 => "cpu:50-199ms",
                            200..=999 => "cpu:200-999ms",
                            _ => "cpu:>=1s",
                        });
                        reply.class(match obs.alloc_bytes >> 20 {
                            0..=3 => "alloc-total:<4MiB",
                            4..=15 => "alloc-total:4-16MiB",
                            _ => "alloc-total:>=16MiB",
                        });
                        reply.note = Some(json!({
                            "client_term": obs.client_term, "server_term": obs.server_term,
                            "echo_ok": [obs.echo[0].complete(req.case.echo as u64), obs.echo[1].complete(req.case.echo as u64)],
                            "forged": obs.forged.iter().map(|f| json!({"rule": f.rule, "t_us": f.t_us, "pn": f.pn_decoded_model, "skipped": f.skipped, "frames": obs.resolved.get(&f.rule)})).collect::<Vec<_>>(),
                            "cpu_user_ms": obs.cpu_ms, "cpu_sys_ms": obs.sys_ms, "alloc_bytes": obs.alloc_bytes, "alloc_peak_request": obs.alloc_peak_request,
                            "virtual_end_us": obs.virtual_end_us, "datagrams": obs.datagrams, "attacker_blind": obs.spy_blind_why,
                        }));
                        reply
                    }
                    None => {
                        let mut reply = Reply::default();
                        let (loc, msg) = panics.first().cloned().unwrap_or(("?".into(), "?".into()));
                        let file = loc.rsplit_once(':').map(|x| x.0.to_string()).unwrap_or(loc.clone());
                        reply.fatal(format!("panic@{file}"), format!("the scenario's main task panicked at {loc}: {msg}"));
                        reply
                    }
                };
                raw_out(format!("R {}\n", serde_json::to_string(&reply).unwrap()).as_bytes());
            }
        })
        .unwrap();
    let _ = worker.join();
    std::process::exit(0);
}

// ---------------------------------------------------------------------------
// parent side: one child per runner thread
// ---------------------------------------------------------------------------

struct Kid {
    proc_: Child,
    tx: ChildStdin,
    rx: BufReader<ChildStdout>,
}

impl Kid {
    fn spawn() -> Kid {
        let exe = std::env::current_exe().expect("current_exe");
        let show = std::env::var_os("VERIF_DEBUG").is_some() || std::env::var_os("VERIF_C04_CHILD_STDERR").is_some();
        let mut c = Command::new(exe)
            .arg("--child")
            .env("RUST_BACKTRACE", "0")
            .stdin(Stdio::piped())
            .stdout(Stdio::piped())
            .stderr(if show { Stdio::inherit() } else { Stdio::null() })
            .spawn()
            .expect("spawn child");
        let tx = c.stdin.take().unwrap();
        let rx = BufReader::new(c.stdout.take().unwrap());
        Kid { proc_: c, tx, rx }
    }
}

impl Drop for Kid {
    fn drop(&mut self) {
        let _ = self.proc_.kill();
        let _ = self.proc_.wait();
    }
}

thread_local! {
    static KID: std::cell::RefCell<Option<Kid>> = const { std::cell::RefCell::new(None) };
}

static DEATHS: AtomicU64 = AtomicU64::new(0);

enum Talk {
    Reply(Reply),
    Died { in_case: bool, last_forged: Option<usize>, all_forged: Vec<usize>, kind: &'static str, detail: String },
}

fn talk(kid: &mut Kid, req: &Request) -> Talk {
    let line = serde_json::to_string(req).unwrap();
    let sent = kid.tx.write_all(line.as_bytes()).and_then(|_| kid.tx.write_all(b"\n")).and_then(|_| kid.tx.flush());
    let mut in_case = false;
    let mut last_forged = None;
    let mut all_forged = vec![];
    let mut alloc: Option<String> = None;
    let mut cpu = false;
    if sent.is_ok() {
        let mut buf = String::new();
        loop {
            buf.clear();
            match kid.rx.read_line(&mut buf) {
                Ok(0) | Err(_) => break,
                Ok(_) => {}
            }
            let l = buf.trim_end();
            if l == "B" {
                in_case = true;
            } else if l == "E" {
                in_case = false;
            } else if let Some(i) = l.strip_prefix("F ") {
                last_forged = i.parse().ok();
                all_forged.extend(last_forged);
            } else if let Some(n) = l.strip_prefix("A ") {
                alloc.get_or_insert(n.to_string());
            } else if l == "C" {
                cpu = true;
            } else if let Some(j) = l.strip_prefix("R ") {
                match serde_json::from_str::<Reply>(j) {
                    Ok(r) => return Talk::Reply(r),
                    Err(e) => {
                        eprintln!("c04e: bad reply from child: {e}");
                        std::process::exit(2);
                    }
                }
            } else if l.starts_with("X ") {
                eprintln!("c04e: child: {l}");
                std::process::exit(2);
            }
        }
    }
    let status = kid.proc_.wait().map(|s| format!("{s}")).unwrap_or_default();
    let (kind, detail) = if cpu {
        ("cpu", status)
    } else if let Some(n) = alloc {
        ("alloc", n)
    } else {
        ("abort", status)
    };
    Talk::Died { in_case, last_forged, all_forged, kind, detail }
}

/// Does the packet carry an ACK frame whose valid ranges cover more than 2^24 packet numbers
/// (whatever the state-relative fields resolve to)?
fn has_huge_ack(f: &Forged) -> bool {
    f.frames.iter().any(|x| {
        [None, Some(0), Some(3)]
            .iter()
            .any(|sent| matches!(encode_frame(x, *sent, 0).1, Resolved::Ack { walk, .. } if walk > 1 << 24))
    })
}

fn kinds_of(f: &Forged) -> String {
    let set: BTreeSet<String> = f.frames.iter().map(|x| x.kind()).collect();
    set.into_iter().collect::<Vec<_>>().join("+")
}

fn oracle(case: &Case, ctx: &mut CaseCtx) -> Outcome {
    let req = Request { case: case.clone(), debug: std::env::var_os("VERIF_DEBUG").is_some(), cpu_ms: cpu_budget_ms() };
    let t = KID.with(|k| {
        let mut k = k.borrow_mut();
        if k.is_none() {
            *k = Some(Kid::spawn());
        }
        let t = talk(k.as_mut().unwrap(), &req);
        if matches!(t, Talk::Died { .. }) {
            *k = None;
        }
        t
    });
    match t {
        Talk::Reply(r) => {
            for c in r.classes {
                ctx.class(c);
            }
            if r.nontrivial {
                ctx.nontrivial();
            }
            if let Some(n) = r.note {
                ctx.note(n);
            }
            let mut fatal = None;
            for f in r.fails {
                if f.fatal {
                    if fatal.is_none() {
                        fatal = Some(Fail::new(f.sig, f.msg));
                    }
                } else {
                    ctx.known.push(Fail::new(f.sig, f.msg));
                }
            }
            match fatal {
                Some(f) => Err(f),
                None => Ok(()),
            }
        }
        Talk::Died { in_case: true, last_forged, all_forged, kind, detail } => {
            DEATHS.fetch_add(1, Ordering::Relaxed);
            ctx.class(format!("child-died:{kind}"));
            ctx.nontrivial();
            let culprit = last_forged.and_then(|i| case.forged.get(i));
            let what = match culprit {
                Some(f) => format!(
                    "after forged Initial packet (victim {:?}, pn {:?} in {} byte(s), frames {:?}) was handed over",
                    f.rule.victim, f.rule.pn, f.rule.pn_width, f.frames
                ),
                None => "before any forged packet was handed over".to_string(),
            };
            // packet-number jumps of the forged packets handed over so far, added up: the window of
            // received-packet records spans all of them. (Its records are allocated when a packet
            // is recorded and walked by every ACK generated afterwards, i.e. possibly after a
            // later forged packet.)
            let jump = Some(
                all_forged
                    .iter()
                    .filter_map(|i| case.forged.get(*i))
                    .map(|f| match f.rule.pn {
                        ForgePn::Above(k) => k as u64,
                        ForgePn::Low(_) => 0,
                    })
                    .sum::<u64>(),
            );
            if kind == "cpu" {
                HANG_CONFIRMED.store(1, Ordering::Relaxed);
            }
            match kind {
                // the records materialised for a packet-number jump are also walked one by one
                // (every ACK the victim generates afterwards): same finding, seen through the clock
                "cpu" if jump.is_some_and(|j| j >= 1 << 15) => Err(Fail::new(
                    SIG_PN_JUMP,
                    format!("the case was still running after {} ms of user-mode CPU time of its thread {what}: one record per skipped packet number is allocated and walked", req.cpu_ms),
                )),
                "cpu" => Err(Fail::new(
                    // an ACK frame whose valid ranges cover more than 2^24 packet numbers, in any
                    // packet handed over so far, is the prime suspect (it may be handled after a
                    // later packet was handed over); otherwise the packet handed over last
                    if all_forged.iter().filter_map(|i| case.forged.get(*i)).any(has_huge_ack) {
                        "forged-initial-packet-hangs-receiver:ACK-ranges-cover>2^24-numbers".to_string()
                    } else {
                        format!("forged-initial-packet-hangs-receiver:{}", culprit.map(kinds_of).unwrap_or_else(|| "none".into()))
                    },
                    format!("the case was still running after {} ms of user-mode CPU time of its thread (a case without hostile packets needs < 100 ms) {what}; process killed", req.cpu_ms),
                )),
                "alloc" => {
                    let request: u64 = detail.parse().unwrap_or(0);
                    if jump.is_some_and(|j| jump_explains(j, request)) {
                        Err(Fail::new(
                            SIG_PN_JUMP,
                            format!("allocation request of {detail} bytes took the case over its budget of {ALLOC_TOTAL_LIMIT} bytes {what}: one record per skipped packet number"),
                        ))
                    } else {
                        Err(Fail::new(
                            format!("forged-initial-packet-allocates-without-bound:{}", culprit.map(kinds_of).unwrap_or_else(|| "none".into())),
                            format!("allocation request of {detail} bytes took the case over its budget of {ALLOC_TOTAL_LIMIT} bytes (a case without hostile packets requests < 4 MiB in total) {what}"),
                        ))
                    }
                }
                _ => Err(Fail::new(
                    format!("process-died-after-forged-packet:{}", culprit.map(kinds_of).unwrap_or_else(|| "none".into())),
                    format!("the process running the case died ({detail}) {what}"),
                )),
            }
        }
        Talk::Died { in_case: false, kind, detail, .. } => {
            eprintln!("c04e: child died outside a case ({kind} {detail})");
            std::process::exit(2);
        }
    }
}

fn main() {
    if std::env::args().nth(1).as_deref() == Some("--child") {
        child_main();
    }
    let mut check = Check::from_env("C04", "exploration");
    if check.is_replay() {
        REPLAY.store(1, Ordering::Relaxed);
    }
    check.rule(
        "connection-level stage 'forged-initial': real dquic client+server over simnet (handshake, stream echo, 2 s pause, second echo) while an on-path attacker \
         injects 0-4 forged Initial packets (Initial keys derived from the client's first DCID as qconnection/src/builder.rs does, connection IDs learnt from the long headers on the wire) \
         into either endpoint. Trigger = the k-th datagram of either direction (k in 0..14, mostly 0..2 = the handshake flights; later ones = established connection) plus 0..3 latencies, so packets arrive \
         before the victim's first flight is answered, mid-handshake, and after the point at which the victim must have discarded its Initial keys. Packet number = a low one (duplicate of a genuine number) \
         or 0..2^32-1 above the largest delivered, in 1-4 bytes. 1-4 frames per packet from: ACK (largest = victim's largest sent -2..+3 or absolute; first range 0.., down to 0, or below 0; 0-300 gap/length pairs; \
         walked fields are <= 2^24 or >= 2^40, delay/ECN counts anywhere in [0,2^62)), CRYPTO (offset 0..2^62-1, length 0..1100, also offset+length > 2^62-1), PING, PADDING, CONNECTION_CLOSE 0x1c \
         (registered and unregistered codes), and 22 frame types RFC 9000 12.4 forbids in Initial packets. The real receive path (router, Initial-space decryption and packet-number decoding, \
         frame dispatcher of qconnection/src/space/initial.rs and the tasks behind it) handles them inside a child process under a user-CPU watchdog and an allocation budget. \
         non-trivial = a forged packet that certainly reached the dispatcher (fresh 4-byte packet number, genuine connection IDs, before the victim's key-discard point, first forged packet for that victim) or one the RFC \
         says to drop (number already acknowledged by the victim / after the discard point), or a case that killed the child; distinct = by hash of the serialised case.",
    );
    check.assume("connection-level stage: loss-free link with 1/10/20 ms one-way latency; one current_thread runtime with paused clock per case: what happens at one virtual instant is complete before the clock moves (used to decide whether a packet arrived before or after the victim's key-discard point; packets forged at that very instant are judged by the safety clauses only)");
    check.assume("connection-level stage: a forged Initial packet is indistinguishable from a genuine one, so a connection ended by it with the RFC's error - or a handshake stalled by it (packet-number desynchronisation, a forged server connection ID, an ACK of a forged number that the genuine peer refuses) - is correct behaviour; judged are: panics, CPU, memory, the error kind of a terminated endpoint, that frames which must end the connection do so when they certainly reached the dispatcher, that packets the RFC says to drop have no effect, and that data read back by the application is what it wrote");
    check.assume("connection-level stage: the victim's Initial packet numbers are contiguous from 0 (an ACK of any number <= the largest seen on the wire acknowledges sent packets); the attacker's view comes from decrypting every Initial packet on the wire with the stack's own packet reader - a case in which it cannot decrypt one makes no 'certain' statement");
    check.assume("connection-level stage: CPU verdict = the case is still running after 20 s of user-mode CPU time of its thread (400 x a control case; 2.5 s for the rest of a run once one case was killed at 20 s); allocation verdicts = a single request above 128 KiB + 256 B per datagram, or more than 16 MiB + 8 KiB per datagram requested in total (control: 32.5 kB / 2.3 MB)");
    check.max_shrink_iters = 24;
    let n = check.pick(2_400, 60_000);
    check.stage("forged-initial", n, 16, case_strategy, oracle);
    check.extra("forged_initial_child_deaths", json!(DEATHS.load(Ordering::Relaxed)));
    check.finish();
}
