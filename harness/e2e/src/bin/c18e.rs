//! C18 (connection-level part) — "remembered parameters are only honoured for 0-RTT when the new
//! ones are no smaller".
//!
//! Two lives of one server over simnet with a shared TLS session storage: in the first the client
//! learns a session ticket together with the server's transport parameters `a`; the server then
//! "restarts" with parameters `b` (each 0-RTT relevant limit generated as smaller / equal / larger
//! than in `a`). The client resumes with 0-RTT enabled, opens streams and writes early data before
//! it has seen anything from the server, and after the handshake runs more echo streams than the
//! limits allow at once. The decision whether the remembered parameters may be kept is taken inside
//! `ClientTlsSession::try_process_ee` (qconnection/src/tls.rs), which only a resumed handshake
//! reaches. Merges its stage into the evidence written by the component check `c18`.

#![allow(deprecated)]

use std::{sync::Arc, time::Duration};

use e2e::*;
use proptest::prelude::*;
use serde::{Deserialize, Serialize};
use serde_json::json;
use tokio::io::{AsyncReadExt, AsyncWriteExt};
use vcore::{CaseCtx, Check, Fail, Outcome};

#[derive(Debug, Clone, Copy, Serialize, Deserialize, PartialEq)]
enum Rel {
    Smaller,
    Equal,
    Larger,
}

#[derive(Debug, Clone, Serialize, Deserialize)]
struct Case {
    lat_us: u32,
    /// the six 0-RTT relevant limits of the server's first life
    a: [u32; 6],
    /// how each limit of the second life relates to the first
    rel: [Rel; 6],
    /// bidi echo streams opened (and written to) before the handshake of the second visit completes
    early: Vec<u32>,
    /// further bidi echo streams started concurrently after it
    late: Vec<u32>,
}

fn rel() -> impl Strategy<Value = Rel> {
    prop_oneof![3 => Just(Rel::Smaller), 3 => Just(Rel::Equal), 2 => Just(Rel::Larger)]
}

fn case_strategy() -> impl Strategy<Value = Case> {
    let win = || prop_oneof![Just(2_000u32), Just(20_000), Just(1u32 << 20), Just(1u32 << 20)];
    let cnt = || prop_oneof![Just(2u32), Just(4), Just(8), Just(100)];
    (
        prop_oneof![Just(1_000u32), Just(10_000), Just(50_000)],
        [win(), win(), win(), win(), cnt(), cnt()],
        [rel(), rel(), rel(), rel(), rel(), rel()],
        proptest::collection::vec(prop_oneof![1u32..300, 300u32..5_000], 1..=3),
        proptest::collection::vec(prop_oneof![1u32..300, 300u32..5_000, 5_000u32..30_000], 0..=8),
    )
        .prop_map(|(lat_us, a, rel, early, late)| Case { lat_us, a, rel, early, late })
}

fn second(a: u32, r: Rel, count: bool) -> u32 {
    match (r, count) {
        (Rel::Equal, _) => a,
        (Rel::Smaller, true) => (a / 4).max(1),
        (Rel::Smaller, false) => (a / 4).max(500),
        (Rel::Larger, true) => a * 2,
        (Rel::Larger, false) => a.saturating_mul(4),
    }
}

fn params(v: &[u32; 6]) -> ParamCfg {
    ParamCfg {
        max_data: v[0],
        sd_bidi_local: v[1],
        sd_bidi_remote: v[2],
        sd_uni: v[3],
        streams_bidi: v[4],
        streams_uni: v[5],
        idle_ms: 0,
        max_datagram: 0,
    }
}

#[derive(Debug, Default, Serialize)]
struct Obs {
    first_visit_ok: bool,
    second_connected: bool,
    handshaked: Option<Result<(), String>>,
    /// per stream (early first): Ok(bytes echoed) or the error
    echoes: Vec<Result<usize, String>>,
    client_terminated: Option<String>,
    server_terminated: Option<String>,
    zero_rtt_datagrams: u32,
    timed_out: bool,
}

fn payload(len: u32, tag: u8) -> Vec<u8> {
    (0..len).map(|i| (i as u8).wrapping_mul(31).wrapping_add(tag)).collect()
}

async fn serve_echo(listeners: Arc<dquic::prelude::QuicListeners>, slot: Arc<std::sync::Mutex<Option<dquic::prelude::Connection>>>) {
    while let Ok((conn, ..)) = listeners.accept().await {
        *slot.lock().unwrap() = Some(conn.clone());
        tokio::spawn(async move {
            while let Ok((_sid, (mut r, mut w))) = conn.accept_bi_stream().await {
                tokio::spawn(async move {
                    let mut buf = vec![];
                    if r.read_to_end(&mut buf).await.is_ok() {
                        let _ = w.write_all(&buf).await;
                        let _ = w.shutdown().await;
                    }
                });
            }
        });
    }
}

async fn echo(conn: &dquic::prelude::Connection, data: Vec<u8>, wait_handshake_before_fin: bool) -> Result<usize, String> {
    let (_sid, (mut r, mut w)) = conn.open_bi_stream().await.map_err(|e| format!("open: {e}"))?.ok_or("open: stream ids exhausted")?;
    w.write_all(&data).await.map_err(|e| format!("write: {e}"))?;
    if wait_handshake_before_fin {
        let _ = w.flush().await;
        conn.handshaked().await.map_err(|e| format!("handshake: {e}"))?;
    }
    w.shutdown().await.map_err(|e| format!("shutdown: {e}"))?;
    let mut back = vec![];
    r.read_to_end(&mut back).await.map_err(|e| format!("read: {e}"))?;
    if back != data {
        return Err(format!("echo differs: sent {} bytes, got {}", data.len(), back.len()));
    }
    Ok(back.len())
}

async fn scenario(case: Case) -> Obs {
    let mut obs = Obs::default();
    let sessions: Arc<dyn rustls::server::StoresServerSessions + Send + Sync> = rustls::server::ServerSessionMemoryCache::new(64);
    let client_tls = World::resumable_client_tls();
    let net = NetCfg { lat_c2s_us: case.lat_us, lat_s2c_us: case.lat_us, ..Default::default() };
    let b: [u32; 6] = std::array::from_fn(|i| second(case.a[i], case.rel[i], i >= 4));
    // the connection window advances by half its initial size per round trip: keep the whole
    // transfer within ~300 such steps, so that the virtual-time deadline is a sound bound
    let mut case = case;
    let cap = (150 * b[0] as u64 / (case.early.len() + case.late.len()).max(1) as u64).min(u32::MAX as u64) as u32;
    for len in case.early.iter_mut().chain(case.late.iter_mut()) {
        *len = (*len).min(cap.max(1));
    }

    // ---- first life -----------------------------------------------------------------------
    {
        let cfg = WorldCfg { net: net.clone(), client: ParamCfg::default(), server: params(&case.a), streams: vec![] };
        let world = World::build_resumable(&cfg, sessions.clone(), &client_tls).await;
        let slot = Arc::new(std::sync::Mutex::new(None));
        let server = tokio::spawn(serve_echo(world.listeners.clone(), slot.clone()));
        let Ok(conn) = world.connect().await else { return obs };
        let first = tokio::time::timeout(Duration::from_secs(30), echo(&conn, payload(100, 1), false)).await;
        obs.first_visit_ok = matches!(first, Ok(Ok(100)));
        // NewSessionTicket messages follow the handshake
        tokio::time::sleep(Duration::from_millis(500)).await;
        let _ = conn.close("first visit done", 0);
        tokio::time::sleep(Duration::from_millis(200)).await;
        world.listeners.shutdown();
        server.abort();
    }
    if !obs.first_visit_ok {
        return obs;
    }

    // ---- second life: same tickets, parameters b --------------------------------------------
    let cfg = WorldCfg { net, client: ParamCfg::default(), server: params(&b), streams: vec![] };
    let world = World::build_resumable(&cfg, sessions.clone(), &client_tls).await;
    let slot = Arc::new(std::sync::Mutex::new(None));
    let server = tokio::spawn(serve_echo(world.listeners.clone(), slot.clone()));
    let Ok(conn) = world.connect().await else { return obs };
    obs.second_connected = true;
    let conn = Arc::new(conn);
    let transfer = {
        let conn = conn.clone();
        let case = case.clone();
        async move {
            let mut set = tokio::task::JoinSet::new();
            // opened against the remembered parameters, before any packet of the server is seen
            for (i, len) in case.early.iter().enumerate() {
                let conn = conn.clone();
                let data = payload(*len, 10 + i as u8);
                set.spawn(async move { (i, echo(&conn, data, true).await) });
            }
            let hs = conn.handshaked().await.map_err(|e| format!("{e}"));
            let n_early = case.early.len();
            for (i, len) in case.late.iter().enumerate() {
                let conn = conn.clone();
                let data = payload(*len, 50 + i as u8);
                set.spawn(async move { (n_early + i, echo(&conn, data, false).await) });
            }
            let mut res: Vec<Option<Result<usize, String>>> = vec![None; n_early + case.late.len()];
            while let Some(j) = set.join_next().await {
                if let Ok((i, r)) = j {
                    res[i] = Some(r);
                }
            }
            (hs, res)
        }
    };
    match tokio::time::timeout(Duration::from_secs(120), transfer).await {
        Ok((hs, res)) => {
            obs.handshaked = Some(hs);
            obs.echoes = res.into_iter().map(|r| r.unwrap_or_else(|| Err("task lost".into()))).collect();
        }
        Err(_) => obs.timed_out = true,
    }
    use futures::FutureExt;
    obs.client_terminated = conn.terminated().now_or_never().map(|e| format!("{e}"));
    if let Some(s) = slot.lock().unwrap().as_ref() {
        obs.server_terminated = s.terminated().now_or_never().map(|e| format!("{e}"));
    }
    obs.zero_rtt_datagrams = world.net.0.lock().unwrap().tap.iter().filter(|r| r.kinds.contains('Z')).count() as u32;
    world.listeners.shutdown();
    server.abort();
    obs
}

fn oracle(case: &Case, ctx: &mut CaseCtx) -> Outcome {
    let c = case.clone();
    let (obs, panics) = run_virtual(|| scenario(c));
    if let Some((loc, msg)) = panics.first() {
        return Err(Fail::new(format!("panic@{loc}"), format!("a task panicked at {loc}: {msg}")));
    }
    let Some(obs) = obs else { return Err(Fail::new("harness", "scenario did not run")) };
    ctx.note(json!({"observed": &obs}));
    if !obs.first_visit_ok || !obs.second_connected {
        ctx.class("first-visit-failed");
        return Ok(());
    }
    let names = ["max_data", "sd_bidi_local", "sd_bidi_remote", "sd_uni", "streams_bidi", "streams_uni"];
    let reduced: Vec<&str> = (0..6).filter(|i| case.rel[*i] == Rel::Smaller).map(|i| names[i]).collect();
    ctx.class(if obs.zero_rtt_datagrams > 0 { "0rtt-packets-on-the-wire" } else { "no-0rtt-packets" });
    ctx.class(if reduced.is_empty() { "nothing-reduced".to_string() } else { "reduced".to_string() });
    for r in &reduced {
        ctx.class(format!("reduced:{r}"));
    }
    // non-trivial: the client really sent 0-RTT packets under remembered limits of which at least
    // one relevant to client-opened bidi streams was reduced
    if obs.zero_rtt_datagrams > 0 && (case.rel[0] == Rel::Smaller || case.rel[2] == Rel::Smaller || case.rel[4] == Rel::Smaller) {
        ctx.nontrivial();
    }
    // A client that honours remembered limits only when the new ones are no smaller never exceeds
    // what the server now advertises: the server has no reason to end the connection, and every
    // echo completes (limits are raised as the server's application reads / streams finish).
    for (who, t) in [("client", &obs.client_terminated), ("server", &obs.server_terminated)] {
        if let Some(t) = t {
            let kind = t.split(|c: char| !c.is_alphanumeric()).next().unwrap_or("?").to_string();
            return Err(Fail::new(
                format!("resumed-connection-died:{kind}"),
                format!(
                    "second visit (limits reduced: {reduced:?}; a = {:?}, rel = {:?}): the {who} side terminated with {t}; echoes {:?}",
                    case.a, case.rel, obs.echoes
                ),
            ));
        }
    }
    if obs.timed_out {
        return Err(Fail::new(
            "resumed-transfer-stalled",
            format!("second visit (limits reduced: {reduced:?}; a = {:?}, rel = {:?}): the echoes did not finish within 120 s of virtual time", case.a, case.rel),
        ));
    }
    if let Some(Err(e)) = &obs.handshaked {
        return Err(Fail::new("resumed-handshake-failed", format!("{e}")));
    }
    for (i, e) in obs.echoes.iter().enumerate() {
        if let Err(e) = e {
            return Err(Fail::new("resumed-echo-failed", format!("stream {i}: {e} (limits reduced: {reduced:?})")));
        }
    }
    Ok(())
}

fn main() {
    let mut check = Check::from_env("C18", "exploration");
    check.rule(
        "resumed-0rtt stage: case = (latency, the server's six 0-RTT relevant limits in its first life, for each of them smaller/equal/larger in its second life, 1-3 echo streams opened and written before the second handshake completes, 0-8 started after it); \
         run on the real dquic client+server over simnet with a shared TLS session storage and 0-RTT enabled on both sides. \
         non-trivial = 0-RTT packets were on the wire in the second visit and a limit that governs client-opened bidirectional streams (initial_max_data, initial_max_stream_data_bidi_remote, initial_max_streams_bidi) was reduced. distinct = by hash of the serialised case.",
    );
    check.assume("resumed-0rtt stage: clean network (no loss); the client's own parameters are the defaults in both visits; only client-opened bidirectional streams carry data");
    let n = check.pick(2_000, 60_000);
    check.max_shrink_iters = 60;
    check.stage("resumed-0rtt", n, 16, case_strategy, oracle);
    check.finish();
}
