//! C17 — closing or failing a connection ends every pending operation.
//!
//! Real dquic client + server over simnet. A generated set of operations is left
//! pending on both endpoints; then a local close, a close from both sides, an injected
//! protocol error, a black hole or plain idleness happens at a generated point of the
//! connection's life. Oracle: every pending and every later operation completes with an
//! error within a bound, the terminating error is fixed, idle closes happen after the
//! negotiated timeout and not before.

use std::{
    sync::{Arc, Mutex},
    time::Duration,
};

use dquic::prelude::*;
use e2e::*;
use futures::FutureExt;
use proptest::prelude::*;
use serde::{Deserialize, Serialize};
use serde_json::json;
use tokio::io::{AsyncReadExt, AsyncWriteExt};
use vcore::{CaseCtx, Check, Fail, Outcome, ensure};

#[derive(Debug, Clone, Copy, Serialize, Deserialize, PartialEq, Eq, Hash, PartialOrd, Ord)]
enum OpKind {
    /// read on a locally opened bidi stream the peer application never writes to
    ReadIdle,
    /// write far more than the peer's stream window on a locally opened uni stream nobody reads
    WriteBlocked,
    /// small write + flush started just before the trigger (data still unacknowledged)
    FlushRace,
    /// small write + shutdown started just before the trigger
    ShutdownRace,
    /// open one bidi stream more than the peer allows
    OpenBiAtLimit,
    OpenUniAtLimit,
    AcceptBi,
    AcceptUni,
    Handshaked,
    Terminated,
}

#[derive(Debug, Clone, Copy, Serialize, Deserialize, PartialEq)]
enum Phase {
    /// trigger right after the client created the connection (nothing sent yet)
    BeforeFlight,
    /// `us` after the client created the connection, before the handshake can be complete
    MidHandshake { permille_of_rtt: u16 },
    /// `ms` after both sides completed the handshake
    AfterHandshake { ms: u16 },
}

#[derive(Debug, Clone, Copy, Serialize, Deserialize, PartialEq)]
enum Trigger {
    CloseClient { code: u32 },
    CloseServer { code: u32 },
    /// client closes at T, server at T + offset_us (may be negative)
    CloseBoth { offset_us: i32 },
    /// `by_client`: the client injects a frame the server must reject (and vice versa)
    InjectError { by_client: bool },
    Blackhole,
    IdleOnly,
}

#[derive(Debug, Clone, Serialize, Deserialize)]
struct Case {
    lat_us: u32,
    client_idle_ms: u32,
    server_idle_ms: u32,
    phase: Phase,
    trigger: Trigger,
    client_ops: Vec<OpKind>,
    server_ops: Vec<OpKind>,
    /// idleness only: the network keeps replaying every datagram of one direction (towards the
    /// client?) every 200 ms for 50 s, optionally with every second copy corrupted. Replayed or
    /// corrupted packets are not "received and processed successfully" (RFC 9000 §10.1): the idle
    /// timeout must fire all the same.
    #[serde(default)]
    ghost: Option<(bool, bool)>,
}

const STREAM_LIMIT: u32 = 2;
const WINDOW: u32 = 300;

fn ops() -> impl Strategy<Value = Vec<OpKind>> {
    use OpKind::*;
    proptest::collection::vec(
        proptest::sample::select(vec![
            ReadIdle, WriteBlocked, FlushRace, ShutdownRace, OpenBiAtLimit, OpenUniAtLimit, AcceptBi, AcceptUni, Handshaked,
            Terminated,
        ]),
        0..=6,
    )
    .prop_map(|mut v| {
        v.sort();
        v.dedup();
        v
    })
}

fn case_strategy() -> impl Strategy<Value = Case> {
    let idle = || prop_oneof![Just(0u32), Just(2_000), Just(5_000), Just(20_000)];
    let phase = prop_oneof![
        1 => Just(Phase::BeforeFlight),
        2 => (0u16..3000).prop_map(|p| Phase::MidHandshake { permille_of_rtt: p }),
        6 => prop_oneof![Just(0u16), 1u16..50, 50u16..1500].prop_map(|ms| Phase::AfterHandshake { ms }),
    ];
    let trigger = prop_oneof![
        3 => (0u32..1000).prop_map(|code| Trigger::CloseClient { code }),
        3 => (0u32..1000).prop_map(|code| Trigger::CloseServer { code }),
        3 => (-5000i32..5000).prop_map(|offset_us| Trigger::CloseBoth { offset_us }),
        2 => any::<bool>().prop_map(|by_client| Trigger::InjectError { by_client }),
        1 => Just(Trigger::Blackhole),
        2 => Just(Trigger::IdleOnly),
    ];
    (
        prop_oneof![Just(0u32), Just(1_000), Just(20_000), Just(100_000)],
        idle(),
        idle(),
        phase,
        trigger,
        ops(),
        ops(),
        prop_oneof![1 => Just(None), 1 => (any::<bool>(), any::<bool>()).prop_map(Some)],
    )
        .prop_map(|(lat_us, client_idle_ms, server_idle_ms, phase, trigger, mut client_ops, mut server_ops, ghost)| {
            use OpKind::*;
            // an accept can only stay pending if the peer opens no stream of that kind
            let opens_bi = |v: &Vec<OpKind>| v.iter().any(|o| matches!(o, ReadIdle));
            let opens_uni = |v: &Vec<OpKind>| v.iter().any(|o| matches!(o, WriteBlocked | FlushRace | ShutdownRace));
            if opens_bi(&client_ops) {
                server_ops.retain(|o| *o != AcceptBi);
            }
            if opens_uni(&client_ops) {
                server_ops.retain(|o| *o != AcceptUni);
            }
            if opens_bi(&server_ops) {
                client_ops.retain(|o| *o != AcceptBi);
            }
            if opens_uni(&server_ops) {
                client_ops.retain(|o| *o != AcceptUni);
            }
            let mut phase = phase;
            // protocol errors and idleness are about established connections
            if matches!(trigger, Trigger::InjectError { .. } | Trigger::IdleOnly | Trigger::Blackhole) {
                if !matches!(phase, Phase::AfterHandshake { .. }) {
                    phase = Phase::AfterHandshake { ms: 10 };
                }
            }
            let ghost = if matches!(trigger, Trigger::IdleOnly) { ghost } else { None };
            Case { lat_us, client_idle_ms, server_idle_ms, phase, trigger, client_ops, server_ops, ghost }
        })
}

// ---------------------------------------------------------------------------
// observations
// ---------------------------------------------------------------------------

#[derive(Debug, Clone, Serialize, Default)]
struct OpObs {
    side: &'static str,
    kind: String,
    /// before / after the trigger
    late: bool,
    started_us: u64,
    done_us: Option<u64>,
    /// Ok(description) or Err(kind: text)
    result: Option<Result<String, String>>,
}

#[derive(Debug, Clone, Serialize, Default)]
struct Obs {
    ops: Vec<OpObs>,
    trigger_us: Option<u64>,
    second_trigger_us: Option<u64>,
    client_term: Option<(u64, String)>,
    server_term: Option<(u64, String)>,
    client_term_again: Option<String>,
    server_term_again: Option<String>,
    server_accepted: bool,
    handshaked_both_us: Option<u64>,
    last_datagram_before_first_term_us: Option<u64>,
    end_us: u64,
    close_result: Vec<String>,
}

type Shared = Arc<Mutex<Obs>>;

fn errs(e: &dyn std::fmt::Display) -> String {
    format!("{e}")
}

fn spawn_op(conn: &Connection, side: &'static str, kind: OpKind, late: bool, sh: &Shared, net: &SimNet) {
    let idx = {
        let mut g = sh.lock().unwrap();
        g.ops.push(OpObs { side, kind: format!("{kind:?}"), late, started_us: net.elapsed_us(), ..Default::default() });
        g.ops.len() - 1
    };
    let (conn, sh, net) = (conn.clone(), sh.clone(), net.clone());
    tokio::spawn(async move {
        let r: Result<String, String> = match kind {
            OpKind::ReadIdle => match conn.open_bi_stream().await {
                Ok(Some((_sid, (mut r, mut w)))) => {
                    // let the peer know the stream exists
                    let _ = w.write_all(b"x").await;
                    let mut buf = [0u8; 16];
                    match r.read(&mut buf).await {
                        Ok(n) => Ok(format!("read {n}")),
                        Err(e) => Err(errs(&e)),
                    }
                }
                Ok(None) => Ok("ids exhausted".into()),
                Err(e) => Err(errs(&e)),
            },
            OpKind::WriteBlocked => match conn.open_uni_stream().await {
                Ok(Some((_sid, mut w))) => {
                    // a single write is accepted whole while the buffer is below the window, so
                    // write in chunks: the second one blocks on the peer's 300-byte stream window
                    let chunk = vec![7u8; 1000];
                    let mut r = Ok("wrote all".to_string());
                    for _ in 0..200 {
                        if let Err(e) = w.write_all(&chunk).await {
                            r = Err(errs(&e));
                            break;
                        }
                    }
                    r
                }
                Ok(None) => Ok("ids exhausted".into()),
                Err(e) => Err(errs(&e)),
            },
            OpKind::FlushRace | OpKind::ShutdownRace => match conn.open_uni_stream().await {
                Ok(Some((_sid, mut w))) => {
                    let r1 = w.write_all(&[9u8; 100]).await;
                    let r2 = if kind == OpKind::FlushRace { w.flush().await } else { w.shutdown().await };
                    match r1.and(r2) {
                        Ok(()) => Ok("completed".into()),
                        Err(e) => Err(errs(&e)),
                    }
                }
                Ok(None) => Ok("ids exhausted".into()),
                Err(e) => Err(errs(&e)),
            },
            OpKind::OpenBiAtLimit => {
                let mut held = vec![];
                loop {
                    match conn.open_bi_stream().await {
                        Ok(Some(s)) => {
                            held.push(s);
                            if held.len() > 64 {
                                break Ok("opened 64 streams".into());
                            }
                        }
                        Ok(None) => break Ok("ids exhausted".into()),
                        Err(e) => break Err(errs(&e)),
                    }
                }
            }
            OpKind::OpenUniAtLimit => {
                let mut held = vec![];
                loop {
                    match conn.open_uni_stream().await {
                        Ok(Some(s)) => {
                            held.push(s);
                            if held.len() > 64 {
                                break Ok("opened 64 streams".into());
                            }
                        }
                        Ok(None) => break Ok("ids exhausted".into()),
                        Err(e) => break Err(errs(&e)),
                    }
                }
            }
            OpKind::AcceptBi => match conn.accept_bi_stream().await {
                Ok((sid, _)) => Ok(format!("accepted {sid}")),
                Err(e) => Err(errs(&e)),
            },
            OpKind::AcceptUni => match conn.accept_uni_stream().await {
                Ok((sid, _)) => Ok(format!("accepted {sid}")),
                Err(e) => Err(errs(&e)),
            },
            OpKind::Handshaked => match conn.handshaked().await {
                Ok(()) => Ok("handshaked".into()),
                Err(e) => Err(errs(&e)),
            },
            OpKind::Terminated => Err(format!("{:?}: {}", conn.terminated().await.kind(), "terminated")),
        };
        let mut g = sh.lock().unwrap();
        g.ops[idx].done_us = Some(net.elapsed_us());
        g.ops[idx].result = Some(r);
    });
}

const LATE_KINDS: [OpKind; 7] = [
    OpKind::ReadIdle,
    OpKind::WriteBlocked,
    OpKind::OpenBiAtLimit,
    OpKind::AcceptBi,
    OpKind::AcceptUni,
    OpKind::Handshaked,
    OpKind::Terminated,
];

fn term_string(e: &Error) -> String {
    match e {
        Error::App(a) => format!("App({}): {}", a.error_code(), a.reason()),
        Error::Quic(q) => format!("{:?}: {}", q.kind(), q.reason()),
    }
}

async fn scenario(case: Case) -> Obs {
    let p = |idle_ms: u32| ParamCfg {
        max_data: 1 << 20,
        sd_bidi_local: WINDOW,
        sd_bidi_remote: WINDOW,
        sd_uni: WINDOW,
        streams_bidi: STREAM_LIMIT,
        streams_uni: STREAM_LIMIT + 2,
        idle_ms,
        max_datagram: 0,
    };
    let cfg = WorldCfg {
        net: NetCfg {
            lat_c2s_us: case.lat_us,
            lat_s2c_us: case.lat_us,
            rules: match case.ghost {
                Some((towards_client, flip)) => vec![Rule {
                    dir: if towards_client { Dir::S2C } else { Dir::C2S },
                    from: 0,
                    len: u32::MAX,
                    action: Action::Ghost { n: 250, gap_us: 200_000, flip },
                }],
                None => vec![],
            },
            ..Default::default()
        },
        client: p(case.client_idle_ms),
        server: p(case.server_idle_ms),
        streams: vec![],
    };
    let world = World::build(&cfg, &WorldOpts::default()).await;
    let net = world.net.clone();
    let sh: Shared = Arc::new(Mutex::new(Obs::default()));
    let rtt_us = 2 * case.lat_us as u64;

    // server: accept one connection, start its pending ops once accepted
    let server_conn: Arc<Mutex<Option<Connection>>> = Arc::new(Mutex::new(None));
    {
        let (listeners, slot, sh, net, ops) = (world.listeners.clone(), server_conn.clone(), sh.clone(), net.clone(), case.server_ops.clone());
        tokio::spawn(async move {
            if let Ok((conn, ..)) = listeners.accept().await {
                sh.lock().unwrap().server_accepted = true;
                for k in ops {
                    spawn_op(&conn, "server", k, false, &sh, &net);
                }
                *slot.lock().unwrap() = Some(conn);
            }
        });
    }
    let Ok(client) = world.connect().await else {
        return sh.lock().unwrap().clone();
    };
    for k in &case.client_ops {
        spawn_op(&client, "client", *k, false, &sh, &net);
    }
    // watch terminations
    {
        let (c, sh2, net2) = (client.clone(), sh.clone(), net.clone());
        tokio::spawn(async move {
            let e = c.terminated().await;
            let mut g = sh2.lock().unwrap();
            g.client_term = Some((net2.elapsed_us(), term_string(&e)));
        });
        let (slot, sh2, net2) = (server_conn.clone(), sh.clone(), net.clone());
        tokio::spawn(async move {
            loop {
                let c = slot.lock().unwrap().clone();
                if let Some(c) = c {
                    let e = c.terminated().await;
                    let mut g = sh2.lock().unwrap();
                    g.server_term = Some((net2.elapsed_us(), term_string(&e)));
                    break;
                }
                tokio::time::sleep(Duration::from_millis(1)).await;
            }
        });
    }

    // reach the phase
    match case.phase {
        Phase::BeforeFlight => {}
        Phase::MidHandshake { permille_of_rtt } => {
            tokio::time::sleep(Duration::from_micros(rtt_us * permille_of_rtt as u64 / 1000)).await;
        }
        Phase::AfterHandshake { ms } => {
            let both = async {
                let _ = client.handshaked().await;
                loop {
                    let c = server_conn.lock().unwrap().clone();
                    if let Some(c) = c {
                        let _ = c.handshaked().await;
                        break;
                    }
                    tokio::time::sleep(Duration::from_millis(1)).await;
                }
            };
            let _ = tokio::time::timeout(Duration::from_secs(20), both).await;
            sh.lock().unwrap().handshaked_both_us = Some(net.elapsed_us());
            tokio::time::sleep(Duration::from_millis(ms as u64)).await;
        }
    }

    // the trigger
    let server_now = || server_conn.lock().unwrap().clone();
    sh.lock().unwrap().trigger_us = Some(net.elapsed_us());
    let mut observe_for = Duration::from_secs(8);
    match case.trigger {
        Trigger::CloseClient { code } => {
            let r = client.close("bye from client", code as u64);
            sh.lock().unwrap().close_result.push(format!("client: {r:?}"));
        }
        Trigger::CloseServer { code } => match server_now() {
            Some(s) => {
                let r = s.close("bye from server", code as u64);
                sh.lock().unwrap().close_result.push(format!("server: {r:?}"));
            }
            None => {
                // nothing to close yet on the server: close the client instead
                let r = client.close("bye from client", code as u64);
                sh.lock().unwrap().close_result.push(format!("client(instead): {r:?}"));
            }
        },
        Trigger::CloseBoth { offset_us } => {
            let (first_client, gap) = if offset_us >= 0 { (true, offset_us as u64) } else { (false, (-offset_us) as u64) };
            let do_close = |who_client: bool| {
                let r = if who_client {
                    format!("client: {:?}", client.close("bye from client", 1))
                } else {
                    match server_now() {
                        Some(s) => format!("server: {:?}", s.close("bye from server", 2)),
                        None => "server: no connection yet".into(),
                    }
                };
                sh.lock().unwrap().close_result.push(r);
            };
            do_close(first_client);
            tokio::time::sleep(Duration::from_micros(gap)).await;
            sh.lock().unwrap().second_trigger_us = Some(net.elapsed_us());
            do_close(!first_client);
        }
        Trigger::InjectError { by_client } => {
            use dquic::qbase::{
                frame::{MaxStreamDataFrame, ReliableFrame, StreamCtlFrame},
                sid::Dir,
                varint::VarInt,
            };
            // MAX_STREAM_DATA for a stream the *receiver* would have to have opened itself, but never did
            let receiver_role = if by_client { Role::Server } else { Role::Client };
            let sid = StreamId::new(receiver_role, Dir::Bi, 40);
            let frame = ReliableFrame::StreamCtl(StreamCtlFrame::MaxStreamData(MaxStreamDataFrame::new(sid, VarInt::from_u32(5))));
            let r = if by_client {
                client.verif_send_reliable_frame(frame).map_err(|e| errs(&e))
            } else {
                match server_now() {
                    Some(s) => s.verif_send_reliable_frame(frame).map_err(|e| errs(&e)),
                    None => Err("no server connection".into()),
                }
            };
            sh.lock().unwrap().close_result.push(format!("inject: {r:?}"));
        }
        Trigger::Blackhole => {
            // from now on every datagram is dropped in both directions
            net.0.lock().unwrap().set_blackhole_now();
            observe_for = Duration::from_secs(90);
        }
        Trigger::IdleOnly => {
            observe_for = Duration::from_secs(45);
        }
    }

    // wait for both sides to terminate (or the observation window to end)
    let t_end = tokio::time::Instant::now() + observe_for;
    loop {
        let (c, s) = {
            let g = sh.lock().unwrap();
            (g.client_term.is_some(), g.server_term.is_some() || !g.server_accepted)
        };
        if (c && s) || tokio::time::Instant::now() >= t_end {
            break;
        }
        tokio::time::sleep(Duration::from_millis(5)).await;
    }
    {
        let mut g = sh.lock().unwrap();
        let first = [g.client_term.as_ref().map(|x| x.0), g.server_term.as_ref().map(|x| x.0)].into_iter().flatten().min();
        if let Some(first) = first {
            let tap = net.0.lock().unwrap();
            g.last_datagram_before_first_term_us = tap.tap.iter().map(|r| r.t_us).filter(|t| *t < first).max();
        }
    }
    // later operations, on every side that has terminated
    if sh.lock().unwrap().client_term.is_some() {
        for k in LATE_KINDS {
            spawn_op(&client, "client", k, true, &sh, &net);
        }
        let e2 = client.terminated().now_or_never();
        sh.lock().unwrap().client_term_again = e2.map(|e| term_string(&e));
    }
    if sh.lock().unwrap().server_term.is_some() {
        if let Some(s) = server_now() {
            for k in LATE_KINDS {
                spawn_op(&s, "server", k, true, &sh, &net);
            }
            let e2 = s.terminated().now_or_never();
            sh.lock().unwrap().server_term_again = e2.map(|e| term_string(&e));
        }
    }
    // give pending and late operations time to complete
    tokio::time::sleep(Duration::from_secs(3)).await;
    let mut g = sh.lock().unwrap();
    g.end_us = net.elapsed_us();
    g.clone()
}

// ---------------------------------------------------------------------------
// oracle
// ---------------------------------------------------------------------------

fn oracle(case: &Case, ctx: &mut CaseCtx) -> Outcome {
    let c = case.clone();
    let (r, panics) = run_virtual(|| scenario(c));
    if let Some((loc, msg)) = panics.first() {
        return Err(Fail::new(format!("panic@{loc}"), format!("a task panicked at {loc}: {msg}")));
    }
    let obs = r.ok_or_else(|| Fail::new("panic@main", "scenario panicked"))?;
    if std::env::var_os("VERIF_DEBUG").is_some() {
        eprintln!("{}", serde_json::to_string_pretty(&obs).unwrap());
    }
    let trig = format!("{:?}", case.trigger).split([' ', '{']).next().unwrap_or("").to_string();
    ctx.class(format!("trigger:{trig}"));
    ctx.class(format!("phase:{}", format!("{:?}", case.phase).split([' ', '{']).next().unwrap_or("")));
    let pending_at_trigger: Vec<&OpObs> = obs
        .ops
        .iter()
        .filter(|o| !o.late && o.done_us.is_none_or(|d| Some(d) >= obs.trigger_us))
        .collect();
    let kinds: std::collections::BTreeSet<&str> = pending_at_trigger.iter().map(|o| o.kind.as_str()).collect();
    if kinds.len() >= 3 && obs.trigger_us.unwrap_or(0) > 0 {
        ctx.class("pending>=3-kinds");
        ctx.nontrivial();
    }
    ctx.note(json!({
        "trigger_us": obs.trigger_us, "client_term": obs.client_term, "server_term": obs.server_term,
        "pending_kinds": kinds, "close": obs.close_result,
    }));

    let lat = case.lat_us as u64;
    match case.trigger {
        Trigger::IdleOnly => {
            let m = match (case.client_idle_ms, case.server_idle_ms) {
                (0, 0) => None,
                (0, b) => Some(b),
                (a, 0) => Some(a),
                (a, b) => Some(a.min(b)),
            };
            match m {
                None => {
                    ensure!(
                        obs.client_term.is_none() && obs.server_term.is_none(),
                        "idle-closed-without-timeout",
                        "no idle timeout on either side, yet the connection ended: client {:?} server {:?}",
                        obs.client_term,
                        obs.server_term
                    );
                    ctx.class("idle:never");
                    return Ok(());
                }
                Some(m) => {
                    let m_us = m as u64 * 1000;
                    let first = [obs.client_term.as_ref().map(|x| x.0), obs.server_term.as_ref().map(|x| x.0)].into_iter().flatten().min();
                    let Some(first) = first else {
                        return Err(Fail::new(
                            "idle-timeout-never-fired",
                            format!("negotiated idle timeout {m} ms, nothing exchanged for {} s, still open", 45),
                        ));
                    };
                    let quiet_from = obs.last_datagram_before_first_term_us.unwrap_or(0);
                    ensure!(
                        first + 20_000 >= quiet_from + m_us,
                        "idle-closed-too-early",
                        "negotiated idle timeout {m} ms, last datagram at {quiet_from} us, connection ended at {first} us"
                    );
                    // not later than one timeout after the handshake went quiet, plus slack for the
                    // last keep-alive exchange
                    let quiet_start = obs.trigger_us.unwrap_or(0);
                    ensure!(
                        first <= quiet_start + 2 * m_us + 4 * lat + 2_000_000,
                        "idle-closed-too-late",
                        "negotiated idle timeout {m} ms, application quiet since {quiet_start} us, connection ended only at {first} us"
                    );
                    // the timeout is negotiated: both endpoints end on their own, neither may stay open
                    // because the non-zero value was only advertised by its peer
                    for (who, t) in [("client", &obs.client_term), ("server", &obs.server_term)] {
                        if who == "server" && !obs.server_accepted {
                            continue;
                        }
                        ensure!(
                            t.as_ref().is_some_and(|(at, _)| *at <= quiet_start + 2 * m_us + 4 * lat + 2_000_000),
                            format!("idle-timeout-never-fired:{who}"),
                            "negotiated idle timeout {m} ms (client advertises {} ms, server {} ms), application quiet since {quiet_start} us: the {who} ended at {:?}, the other side at {first} us",
                            case.client_idle_ms,
                            case.server_idle_ms,
                            t.as_ref().map(|x| x.0)
                        );
                    }
                    ctx.class("idle:fired");
                    if case.ghost.is_some() {
                        ctx.class("idle:fired-despite-replays");
                    }
                }
            }
        }
        Trigger::Blackhole => {
            // every operation must end within the idle timeout in force (or the PTO give-up)
            let both_term = obs.client_term.is_some() && (obs.server_term.is_some() || !obs.server_accepted);
            if !both_term {
                let no_idle = case.client_idle_ms == 0 && case.server_idle_ms == 0;
                return Err(Fail::new(
                    if no_idle { "hang-after-path-loss:no-idle-timeout" } else { "hang-after-path-loss" },
                    format!(
                        "black hole at {:?} us; 90 s later client_term={:?} server_term={:?} (idle timeouts {} / {} ms)",
                        obs.trigger_us, obs.client_term, obs.server_term, case.client_idle_ms, case.server_idle_ms
                    ),
                ));
            }
        }
        _ => {
            // a close / protocol error: both sides end promptly
            let t0 = obs.trigger_us.unwrap_or(0);
            let bound = t0 + 4 * lat + 1_500_000;
            let Some((tc, _)) = &obs.client_term else {
                return Err(Fail::new("client-not-terminated", format!("trigger {:?} at {t0} us: client still not terminated at {} us", case.trigger, obs.end_us)));
            };
            ensure!(*tc <= bound, "client-terminated-late", "trigger at {t0} us, client terminated at {tc} us");
            if obs.server_accepted {
                let Some((ts, _)) = &obs.server_term else {
                    return Err(Fail::new("server-not-terminated", format!("trigger {:?} at {t0} us: server still not terminated at {} us", case.trigger, obs.end_us)));
                };
                ensure!(*ts <= bound, "server-terminated-late", "trigger at {t0} us, server terminated at {ts} us");
            }
            // the error the application closed with is the one both sides see
            if let Trigger::CloseClient { code } | Trigger::CloseServer { code } = case.trigger {
                let closer = match case.trigger {
                    Trigger::CloseServer { .. } if obs.close_result.iter().any(|r| r.starts_with("server:")) => "server",
                    _ => "client",
                };
                for (who, t) in [("client", &obs.client_term), ("server", &obs.server_term)] {
                    if let Some((_, e)) = t {
                        // the peer of the closing side may see the close as the transport error
                        // APPLICATION_ERROR without code and reason: RFC 9000 10.2.3 requires that
                        // conversion when the close is sent in Initial or Handshake packets
                        let ok = e.starts_with(&format!("App({code})")) || (who != closer && e.starts_with("Application:"));
                        ensure!(
                            ok,
                            "wrong-terminating-error",
                            "{who} terminated with {e:?}, the {closer} application closed with code {code}"
                        );
                    }
                }
            }
            if let Trigger::InjectError { .. } = case.trigger {
                for (who, t) in [("client", &obs.client_term), ("server", &obs.server_term)] {
                    if let Some((_, e)) = t {
                        ensure!(e.starts_with("StreamState"), "wrong-terminating-error", "{who} terminated with {e:?} after an injected STREAM_STATE violation");
                    }
                }
            }
        }
    }
    // the terminating error is fixed once
    for (who, first, again) in [("client", &obs.client_term, &obs.client_term_again), ("server", &obs.server_term, &obs.server_term_again)] {
        if let (Some((_, a)), Some(b)) = (first, again) {
            ensure!(a == b, "terminating-error-changed", "{who}: first {a:?}, later {b:?}");
        }
    }
    // every operation of a terminated side has completed with an error by the end (>= 3 s later)
    for o in &obs.ops {
        let term = if o.side == "client" { &obs.client_term } else { &obs.server_term };
        let Some((t_term, _)) = term else { continue };
        match (&o.result, o.done_us) {
            (None, _) => {
                return Err(Fail::new(
                    format!("{}-op-still-pending:{}", if o.late { "late" } else { "pending" }, o.kind),
                    format!("{} {} started at {} us is still pending at {} us; the side terminated at {t_term} us", o.side, o.kind, o.started_us, obs.end_us),
                ));
            }
            (Some(Ok(what)), Some(done)) => {
                // completing successfully is fine only if it happened before termination
                ensure!(
                    done <= *t_term + 1,
                    format!("op-succeeded-after-termination:{}", o.kind),
                    "{} {} completed with Ok({what}) at {done} us, after the side terminated at {t_term} us",
                    o.side,
                    o.kind
                );
            }
            (Some(Err(_)), Some(done)) => {
                if o.late {
                    ensure!(done <= o.started_us + 1_000_000, format!("late-op-slow:{}", o.kind), "{} {}: {} us to fail", o.side, o.kind, done - o.started_us);
                } else {
                    ensure!(
                        done <= (*t_term).max(o.started_us) + 1_000_000,
                        format!("pending-op-slow:{}", o.kind),
                        "{} {}: side terminated at {t_term} us, operation failed only at {done} us",
                        o.side,
                        o.kind
                    );
                }
            }
            _ => {}
        }
    }
    Ok(())
}

fn main() {
    let mut check = Check::from_env("C17", "exploration");
    check.rule(
        "case = (latency, idle timeouts of both roles, phase of the connection's life, trigger in {client close, server close, both closes racing within +-5 ms, injected protocol error, black hole, idleness}, a set of operations left pending on each endpoint \
         out of {read, blocked write, flush, shutdown, open bidi/uni at the stream limit, accept bidi/uni, handshaked, terminated}); run on the real dquic client+server over simnet under virtual time. \
         non-trivial = >=3 distinct kinds of operation pending at the trigger and the trigger not at time 0. distinct = by hash of the serialised case.",
    );
    check.assume("one current_thread runtime per case (FIFO wake order); 'promptly' = within 1 s virtual of the side's termination, termination within 1.5 s + 2 RTT of the trigger");
    check.assume("the injected protocol error uses the verification hook Connection::verif_send_reliable_frame to play a misbehaving authenticated peer; the receiving endpoint is unmodified");
    check.max_shrink_iters = 120;
    let n = check.pick(6_000, 200_000);
    check.stage("close-scenarios", n, 16, case_strategy, oracle);
    check.finish();
}
