#!/usr/bin/env python3
"""Regenerate /verif/MANIFEST.json from the table below (single source of truth)."""
import json, os, subprocess

ROOT = "/verif"

# id -> dict(engine, category, text, note, technique, design_ref)
CHECKS = {
    "C08": dict(
        engine="comp",
        category="exploration",
        technique="model-based property testing (proptest) against a per-byte coverage-map reference model + exhaustive enumeration of short streams",
        text="Every sequence of <=4 fragments (all offsets/lengths, empty, duplicate, overlapping) over contents of length <=4 (quick; <=6 thorough) with a read of every size at every position is enumerated exhaustively; 20k (quick) / 3M (thorough) random histories up to 64 kB / 200 ops are compared step by step with a reference model (nread, available, is_readable, is_empty, largest_offset, bytes returned, recv() report sum), and replayed through the crypto-stream receiver.",
        note="Fragments are slices of one fixed content (the property's precondition). Reference model and harness are trusted. Recv/SizeKnown wrappers are reached through C01's DataStreams harness, not here.",
        design_ref="DESIGN.md §3 C08",
    ),
}

NOT_YET = "check not built yet in this snapshot of /verif (work in progress; see DESIGN.md §7 order of work)"


def main():
    props = [json.loads(l) for l in open(f"{ROOT}/properties.jsonl")]
    checks = []
    na = []
    for p in props:
        pid = p["id"]
        c = CHECKS.get(pid)
        if not c:
            na.append({"property_id": pid, "reason": NOT_YET})
            continue
        checks.append(
            {
                "property_id": pid,
                "quick_cmd": f"bin/check {pid} quick",
                "thorough_cmd": f"bin/check {pid} thorough",
                "evidence_file": f"/verif/evidence/{pid}.json",
                "replay_cmd_template": f"bin/check replay {pid} {{path}}",
                "engine": c["engine"],
                "level_claimed": {
                    "category": c["category"],
                    "text": c["text"],
                    "design_ref": c["design_ref"],
                },
                "level_note": c["note"],
                "technique": c["technique"],
            }
        )
    hooks_commits = []
    try:
        out = subprocess.run(
            ["git", "-C", "/repo", "log", "--format=%H %s"], capture_output=True, text=True
        ).stdout
        for line in out.splitlines():
            h, _, s = line.partition(" ")
            if s.startswith("verif-hook:"):
                hooks_commits.append(h)
    except Exception:
        pass
    manifest = {
        "version": 1,
        "setup_cmd": "bin/setup",
        "hooks": {
            "guard": "--cfg genmeta_gm_quic_verif",
            "enable": "harness/.cargo/config.toml sets rustflags = [\"--cfg\", \"genmeta_gm_quic_verif\"] for every build of the harness workspace (which compiles /repo's crates by path into /verif/target)",
            "baseline_off_cmd": "cd /repo && cargo nextest run --workspace --no-fail-fast --test-threads 8 --offline || cargo test --workspace --no-fail-fast --offline",
            "source_commits": hooks_commits,
            "add_only": True,
        },
        "engines": [
            {
                "name": "vcore",
                "path": "harness/vcore",
                "serves_properties": [c["property_id"] for c in checks],
                "kind_free_text": "proptest TestRunner wrapper: seeded sharded generation, classification, distinct non-trivial counting, shrinking to the same failure signature, replay files, known-finding matching, evidence writer; exhaustive enumerator for small bounds",
            },
            {
                "name": "comp",
                "path": "harness/comp",
                "serves_properties": [c["property_id"] for c in checks if c["engine"] == "comp"],
                "kind_free_text": "component-level model-based checks driving qbase/qrecovery/qcongestion/qdatagram/qevent public APIs against executable reference models",
            },
            {
                "name": "e2e",
                "path": "harness/e2e",
                "serves_properties": [c["property_id"] for c in checks if c["engine"] == "e2e"],
                "kind_free_text": "simnet: dquic client+server over an in-memory datagram network with generated fault schedules under tokio virtual time",
            },
        ],
        "checks": checks,
        "not_applicable": na,
        "notes": "All checks: exit 0 = held, 1 = VIOLATION line, 2 = infrastructure/inconclusive. VERIF_SEED selects the generator seed. known-findings.jsonl lists confirmed, unrepaired defects (printed as KNOWN-FINDING, exit 0).",
    }
    json.dump(manifest, open(f"{ROOT}/MANIFEST.json", "w"), indent=1)
    print(f"MANIFEST.json: {len(checks)} checks, {len(na)} not claimed")


if __name__ == "__main__":
    main()
