#!/usr/bin/env python3
"""Regenerate /verif/MANIFEST.json from the table below (single source of truth)."""
import json, os, subprocess

ROOT = "/verif"

# id -> dict(engine, category, text, note, technique, design_ref)
CHECKS = {
    "C20": dict(
        engine="e2e",
        category="exploration",
        technique="differential (metamorphic) property testing across logging configurations on the real client+server over simnet, plus JSON round-trip of every captured qlog event and of structure-aware mutations of them",
        text="Each generated workload / fault schedule is run five times: capturing exporter, no-op exporter, capturing with raw data, scheme-filtered exporter (generated mask), and a second build of the whole stack with the telemetry feature compiled out. All legs must give the same application transcript (bytes read/written per stream, errors, completion time), the same termination errors and the same datagram sequence (direction, and exact size for 1-RTT datagrams). Every event captured along the connection lifetimes (handshake, transfer, loss recovery, close; ~12-20 distinct event names per trace) must serialise to a JSON object with name, time, data and group_id, parse back to an equal event, and convert to the legacy format without panicking; ~240 mutated copies per case (numeric / string fields set to boundary values) must round-trip whenever they still parse. 1 000 cases quick, 40 000 thorough.",
        note="Event timestamps come from the wall clock and are never compared. Path-migration events are not produced (one path per connection). Non-finite floats are outside the mutation domain (JSON cannot carry them). The simnet server authenticates with an Ed25519 certificate issued by the repository's test CA (fixed-length signature) so that datagram sizes are reproducible run to run.",
        design_ref="DESIGN.md §3 C20",
    ),
    "C17": dict(
        engine="e2e",
        category="exploration",
        technique="property-based scenario testing on the real dquic client+server over simnet (virtual time): generated sets of pending operations x life-cycle phase x close trigger, with an injected-frame hook to provoke a protocol error",
        text="Each case leaves a generated combination of operations pending on both endpoints (stream read, blocked write, flush, shutdown, open bidi/uni at the stream limit, accept bidi/uni, handshaked, terminated), reaches a generated phase (before the first flight, mid-handshake, some ms after the handshake) and fires a trigger: client close, server close, both closes racing within +-5 ms, an injected STREAM_STATE violation, a black hole, or plain idleness with generated idle timeouts on both sides. Oracle: both sides terminate within 1.5 s + 2 RTT virtual of a close/error, with the application's code (or the RFC 9000 10.2.3 APPLICATION_ERROR conversion at the peer) and the same error on every later query; every pending operation and every operation started afterwards fails within 1 s; none succeeds after termination; an idle connection ends no earlier than the negotiated timeout after the last datagram and no later than 2x that after going quiet, and never when both sides advertise none. 6 000 scenarios quick, 200 000 thorough. Idleness scenarios also run with a network that keeps re-delivering every datagram of one direction every 200 ms for 50 s (optionally every second copy corrupted): such packets are not received and processed successfully, so the idle timeout must fire all the same.",
        note="One current-thread runtime per case (FIFO wake order). Monotone state is observed through handshaked()/terminated() only (no qlog). 'No application data emitted after the transition' is covered at frame level by C01/C09 (nothing is loaded after on_conn_error), not on the wire here.",
        design_ref="DESIGN.md §2.1, §3 C17",
    ),
    "C04": dict(
        engine="comp",
        category="exploration",
        technique="property testing of frame handlers with hostile field values in an isolated child process under a per-call allocation limit and CPU watchdog (cost oracle) plus an RFC 9000 verdict table; exhaustive boundary grids; plus forged Initial packets (keys derived from the connection IDs seen on the wire) carrying generated hostile frames and packet numbers, injected into live client/server connections over simnet so that the real Initial-space dispatcher runs",
        text="A short legitimate history (packets sent / received / acked) is followed by one hostile but well-formed frame or packet number whose fields are drawn boundary-biased from [0, 2^62): ACK (0-64 ranges), NEW_CONNECTION_ID, RETIRE_CONNECTION_ID, MAX_*, STREAM, RESET_STREAM, STOP_SENDING, STREAMS_BLOCKED, CRYPTO and truncated packet numbers of every width. The frame is encoded, parsed by the real FrameReader and run through the real handlers in the connection's dispatch order inside a child process with an allocation limit of 64 KiB + 64 x (frame bytes + records held) and a 1 s CPU watchdog per call: a refused allocation or runaway call is the observation 'unbounded'. Verdicts are compared with the RFC table (unsent ACK -> PROTOCOL_VIOLATION, negative range -> FRAME_ENCODING, beyond limits -> FLOW_CONTROL / STREAM_LIMIT / STREAM_STATE / FINAL_SIZE / CONNECTION_ID_LIMIT) and accepted frames with the model state. 5.4k grid cases exhaustively + 12k (2.2M thorough) random. Connection-level stage forged-initial (binary c04e, evidence merged): 2.4k (100k thorough) simnet connections with a stream-echo workload into which 0-4 forged Initial packets are delivered towards either endpoint at generated handshake moments (fresh / duplicate / far-ahead packet numbers of every width; ACK valid / unsent / negative / 2^62-wide, CRYPTO near / far / beyond 2^62-1, CONNECTION_CLOSE, PING, and all 22 frame types forbidden in Initial packets); each case runs in a child process with a counting allocator and a 20 s user-CPU budget: no panic, bounded CPU and allocation, duplicates of acknowledged packet numbers change nothing, frames the property names (ACK of unsent / negative numbers ...) end the connection when the packet certainly reached the dispatcher, a terminated endpoint shows an error kind some forged frame accounts for, and application data stays intact.",
        note="In the component stages the dispatcher order and flow-control glue of qconnection/src/space*.rs are line-for-line copies inside the harness: a repair there must be mirrored; the forged-initial stage runs the real Initial-space dispatcher only (Handshake and 1-RTT keys cannot be forged). A forged Initial is indistinguishable from a genuine one, so disruption it legitimately causes (closed connection, stalled handshake) is classified, not flagged; packets after the RFC 9001 key-discard point are judged like any other (the property does not cover key discard). Cost constants are empirical envelopes (>=16x above clean-tree maxima for in-domain inputs): growth with the attacker's number is detected, small constant regressions are not.",
        design_ref="DESIGN.md §3 C04",
    ),
    "C01": dict(
        engine="comp",
        category="exploration",
        technique="model-based two-endpoint property testing at frame level: real DataStreams + FlowController pairs joined by a harness-owned frame network with generated loss / reorder / duplicate / split / delayed-ack schedules; exhaustive fate enumeration for short streams",
        text="Two real endpoints (client and server DataStreams with flow controllers, constructed and dispatched as the connection does) exchange packets produced by the real try_load_data_into into buffers of generated capacity and re-parsed with FrameReader; the schedule drops, holds, reorders, duplicates and re-cuts STREAM frames, reports spurious and repeated losses and late acks. Oracle per step: wire bytes equal what was written, reads are byte-exact prefixes, EOF only after FIN and every byte, resets carry the sender's code; at quiescence of a fair suffix every written byte and FIN is readable, flush/shutdown completed, no task is parked without a pending wake-up. All fate assignments over the first-transmission packets of two short streams x delivery orders exhaustively (3k quick / 87k thorough) + 76k / 1.9M random histories up to 1 MB per stream.",
        note="Frame network, ack/loss feedback (mirrors AckDataSpace/DataTracker) and application tasks are harness code. No crypto or timers at this level (the full stack is C02). Flow-control windows generous (C11 narrows them); 0-RTT is C09.",
        design_ref="DESIGN.md §2.2, §3 C01",
    ),
    "C03": dict(
        engine="comp",
        category="exploration",
        technique="differential property testing of the three decoders against an independent RFC 9000/9221 reference decoder on systematic and random mutations of valid encodings and on raw random bytes; same oracle inside three libFuzzer targets (thorough tier)",
        text="Datagram entry (PacketReader for every dcid length 0..20, forward/STUN sniffing), payload entry (FrameReader in Initial / 0-RTT / Handshake / 1-RTT until first error, exactly like read_plain_packet) and transport-parameter entry (both roles, remembered form) are fed every single systematic mutation of a seed list of valid encodings exhaustively (35k cases) plus 800k (quick) / 20M (thorough) random mutations and random bytes. Each step is compared with the reference: accept vs reject, bytes consumed (always progresses, never beyond the input), returned data slices inside the input, canonical re-encoding (mis-framing detector), and the connection error kind prescribed (frame-encoding / protocol-violation / transport-parameter); no panic. Thorough additionally runs the three cargo-fuzz targets (bin/fuzz-c03) with the same oracle.",
        note="Reference decoder hand-written from the RFCs and the extension frames' own encoders. Duplicate transport parameters tolerated (RFC: SHOULD). The connection-level mapping in qconnection::space::read_plain_packet is mirrored in the harness (qconnection is not linked here; it runs for real in C02).",
        design_ref="DESIGN.md §2.3, §3 C03",
    ),
    "C11": dict(
        engine="comp",
        category="exploration",
        technique="model-based property testing of sender and receiver flow control on real DataStreams/FlowController endpoints with asymmetric generated transport parameters; complete enumeration of short receiver histories",
        text="The six initial flow-control parameters of both sides are drawn independently (incl. 0 and unequal uni/bidi). Sender stages: every emitted STREAM frame ends within the limit in force for that stream kind as the peer sees it, the sum of highest offsets stays within MAX_DATA, each byte is charged once (retransmissions free), unused credit is returned, DATA_BLOCKED/RESET values are right. Receiver stages: a scripted hostile peer places STREAM / FIN / RESET_STREAM at, one over and far over stream and connection limits: FLOW_CONTROL_ERROR iff over a limit; advertised MAX_DATA / MAX_STREAM_DATA never decrease. Pair stage: two real endpoints, any receive error is a violation. 0-RTT stage (sender-zero-rtt): a resuming client built as builder.rs builds it sends under three independently drawn parameter sets (local, remembered, granted), then recv_remote_params / revise_params / revise_max_data run in the order the handshake runs them with 0-RTT accepted or rejected, and the full sender alphabet continues; limits are judged as the server sees them (30k quick / 1.5M thorough). Every receiver history of <=3 ops over a 66-frame alphabet exhaustively (638k quick / 7.5M thorough) + 100k / 6.3M random histories.",
        note="Frame dispatch and ack/loss feedback mirror qconnection's glue in harness code. Liveness only as two weak quiescence checks. In the 0-RTT stage nothing from the server is processed, and no stream is cancelled, before the handshake completes.",
        design_ref="DESIGN.md §2.2, §3 C11",
    ),
    "C12": dict(
        engine="comp",
        category="exploration",
        technique="model-based property testing of DataStreams against an RFC 9000 section 2-4 stream-id/state reference model; complete enumeration of all 2-op histories over a 105-op alphabet",
        text="Both roles, both concurrency strategies, stream-count limits 0..8 / 2^60: local opens, MAX_STREAMS, STREAMS_BLOCKED and peer STREAM / RESET_STREAM / STOP_SENDING / MAX_STREAM_DATA / STREAM_DATA_BLOCKED on all four stream kinds with indices around the limits and offsets around the final size. Oracle: opens never exceed the peer's limit and use consecutive ids; index >= advertised count gets STREAM_LIMIT, wrong direction STREAM_STATE, final-size contradictions FINAL_SIZE (ignore-or-error once the stream is closed); every implicitly opened stream is accepted exactly once, in order, with the right kind. 454k cases exhaustively (quick; 9.7M thorough) + 120k / 4M random histories incl. 0-RTT limit revision.",
        note="Reference model hand-written from RFC 9000. Offsets stay below the stream window so C11's errors never compete. Connection-level reaction is exercised by C02/C17.",
        design_ref="DESIGN.md §3 C12",
    ),
    "C15": dict(
        engine="e2e",
        category="exploration",
        technique="history testing of the anti-amplification budget (proptest), real-thread stress of the lock-free budget with an exact quiescence oracle, plus end-to-end wire-tap accounting: real dquic server over simnet with a client whose address stays unvalidated",
        text="Unit stage: 60k (5M) histories of receive / budgeted send (balance -> Constraints::constrain -> commit -> on_sent, optionally overdrawn by padding) / grant / abort on the real AntiAmplifier: the allowance never exceeds 3x received minus sent and never wraps. Thread stage (aa-threads): 400 (20k) cases in which two real receive threads (on_rcvd, generated datagram sizes) race one burst thread (balance -> on_sent) on one AntiAmplifier; every observed allowance is bounded by 3x what had been announced, and at quiescence sent == 3x received exactly (a lost or invented update shows). End-to-end stage: 600 (30k) runs of the real server behind a network that drops the client's datagrams from index 1..3 on (forever, or for a short window), with generated latency, MSS and max_segments; the wire tap samples bytes received from / sent to the client address at every server send until a client Handshake/1-RTT packet is delivered: sent <= 3 x received; with a finite window the transfer must resume and complete.",
        note="Address validation is assumed to happen no earlier than delivery of the first client datagram carrying a Handshake or 1-RTT packet (no Retry/tokens in these runs). In the thread stage the interleaving is the operating system's, not the seed's: the oracle is exact, detection and replay are probabilistic; grant/abort are not raced.",
        design_ref="DESIGN.md §3 C15",
    ),
    "C16": dict(
        engine="comp",
        category="exploration",
        technique="exhaustive enumeration (iterative deepening) and random generation of waiter/notifier interleavings at lock-protected-operation granularity, single-threaded with counting wakers",
        text="16 hand-written waiter/notifier protocols (SendWaker/SendWakers incl. the external condition check as its own step, AsyncDeque, Receiving, ArcKeys / 0-RTT / 1-RTT keys, Parameters, LocalStreamIds, CidCell, Wakers fan-out, crypto reader/writer, DatagramReader, stream Reader/Writer, accept and open stream) are wrapped as step machines; every schedule up to the per-protocol bound (<=3 polls per waiter, <=3 actions per notifier; 3.7M schedules quick, 60M thorough) plus random schedules up to 40/80 steps. For Wakers::combine_with (the fan-out waker of the shared UDP socket) the readiness event is also placed inside the call, after the inner poll has registered the combined waker. Oracle at quiescence: no waiter is Pending with a never-woken waker while a re-poll would make progress; after close/fail every sleeper was woken.",
        note="Granularity is the property's own (individual lock-protected operations); interleavings inside one lock-free operation and real thread schedules are out of reach of this technique. qconnection-level protocols (AntiAmplifier::balance, Path buffers) are not linked into this harness.",
        design_ref="DESIGN.md §3 C16",
    ),
    "C19": dict(
        engine="comp",
        category="exploration",
        technique="model-based property testing of DatagramFlow (writer / packet loading / reader) with complete enumeration of sizes around every limit and packet-space boundary",
        text="Send is refused iff 1+len exceeds the peer limit; every load writes nothing or padding plus exactly one DATAGRAM frame whose payload (after FrameReader) is the queue head, unmerged and unsplit, no-length form only as last frame; the receiver accepts iff the frame fits the local maximum (else PROTOCOL_VIOLATION) and yields payloads unchanged and in order, waking parked readers. Limits {0..5, 64..67, 16385..16388} x lengths around the limit x packet room around the frame size x neighbouring frames exhaustively (7k) + 500k (25M thorough) random histories with loss.",
        note="Two binaries decide C19 (bin/check runs both and merges the evidence): comp/c19 at component level and e2e/c19e, a connection-level stage on simnet (300 quick / 20 000 thorough runs of the real client+server with generated max_datagram_frame_size on both sides) asserting that an accepted datagram that fits a packet reaches the peer application within 1 s on an open, idle, loss-free connection, unchanged and in order. That clause currently fails on every run (known finding: the datagram queue is not wired into packet assembly).",
        design_ref="DESIGN.md §3 C19",
    ),
    "C09": dict(
        engine="comp",
        category="exploration",
        technique="model-based history testing (proptest) of the send buffer against a per-byte colour model, with complete enumeration of short histories and a colour-map hook for step-exact comparison",
        text="Histories of write / window extension / pick-up with arbitrary limits / ack / loss (exact picked ranges, sub-ranges, acks after loss, repeated acks, loss after ack) / resend_flighting / 0-RTT forget_sent_state run on the real SendBuf, on CryptoStreamOutgoing through a recording packet buffer, and on a real stream sender through DataStreams; after every op the observable state (and with the hook the full colour map) equals the model: offered bytes were never-sent or lost and inside the window, data equals what was written, 'fresh' exactly on first offer, lowest offerable byte first, no starvation, completion exactly when all is acknowledged, FIN handling. Every history over a 16-op alphabet up to depth 6 (quick) / 7 (thorough) + 280k / 19M random histories.",
        note="Loss/ack reports only name ranges that were previously offered (what the sent-packet journal can report), except in the 'relaxed' stage. Pick maximality is not required. The colour-map hook is read-only; the check still runs through the public API when it is absent.",
        design_ref="DESIGN.md §3 C09",
    ),
    "C02": dict(
        engine="e2e",
        category="fault_enumeration",
        technique="property-based fault injection: proptest-generated fault schedules, workloads and transport parameters run on the real dquic client+server over an in-memory network under tokio virtual time; oracle = data prefix-equality, no panic, no send storm, completion / no-hang by profile",
        text="Each case runs the unmodified client and server stacks end to end (TLS handshake, packet protection, loss recovery) over simnet with a generated schedule of drop / delay / duplicate / replay / long-lasting replay with corrupted copies / reflect-to-sender / bit-flip (anywhere, or in the first 32 header bytes) / truncate / replace-by-garbage faults per datagram index, pseudo-random loss, or a black hole, with generated flow-control/stream-count/idle parameters and 0-5 uni/bidi streams opened by either side. Safety clauses are asserted on every case; completion only where faults are strictly bounded (<=6 loss-equivalent datagrams); no-hang where a sound virtual-time bound exists. 2400 cases quick, 60 000 thorough; failures shrink to a minimal schedule/workload.",
        note="One current-thread runtime per case with paused clock (FIFO wake order): multi-thread interleavings are not explored. Ciphertext is not reproducible (library RNG) and never enters the oracle. 'Tampered packets are never accepted' is decided behaviourally (a tampered datagram must not break a connection that survives the same schedule with drops instead) plus C06 at packet level. Perpetual-loss profiles assert safety only.",
        design_ref="DESIGN.md §2.1, §3 C02",
    ),
    "C05": dict(
        engine="comp",
        category="exploration",
        technique="round-trip + reference-encoder property testing (proptest) with exhaustive enumeration over frame kind x flag combination x varint width class",
        text="All 26 frame kinds, all header kinds, varints, CIDs, addresses, stream ids, reset tokens and role-valid transport-parameter sets: encode, compare bytes with an independent reference encoder, compare written size with encoding_size() <= max_encoding_size(), decode in all packet types (equal value / exact consumption / WrongType), concatenation metamorphic, and Package::dump into hard-capacity buffers of every size around the declared one. Exhaustive over kind x flags x width class (19k quick / 1.1M thorough) plus 490k / 24M random values.",
        note="Only values the constructors can build are generated (others belong to C03/C04). Reference encoder and packet-type table are hand-written from RFC 9000/9221 and trusted. libFuzzer structured target not built (proptest only).",
        design_ref="DESIGN.md §3 C05",
    ),
    "C06": dict(
        engine="comp",
        category="exploration",
        technique="property testing with real rustls/ring keys: protect/unprotect round trip, exhaustive single-bit tamper sweeps, wrong-pn/wrong-key/cross-generation variants, key-update histories against an RFC 9001 model",
        text="Packets are assembled with the stack's PacketWriter and protected with real Initial/Handshake/0-RTT/1-RTT keys (3 cipher suites, key updates), then received through PacketReader -> CipherPacket::decrypt_* exactly as the routing component does. Round trip must be bit-exact; every single-bit corruption (exhaustive for packets <=200 B), wrong packet number, wrong key, truncation or cross-generation variant must be discarded (None) and leave the receiver able to decrypt the original. 291k cases quick, 7.2M thorough; exhaustive small grid over type x cid length x pn width x body size.",
        note="AEAD and header-protection primitives (rustls/ring) are trusted. TLS handshake randomness is not seedable: verdicts never depend on key values.",
        design_ref="DESIGN.md §3 C06",
    ),
    "C07": dict(
        engine="comp",
        category="exploration",
        technique="model-based history testing of the sent-packet journal + differential testing of packet-number decoding against an RFC 9000 A.3 reference, with an exhaustive sub-grid",
        text="(a) Histories of started / completed / abandoned packet assemblies, acks, losses and ticks on the real ArcSentJournal (plus real threads sharing one journal): emitted packet numbers must be strictly increasing and never reused. (b) encode -> wire -> decode for all receiver positions between largest-acked+1 and the packet, exhaustively for pn-la <= 2^11 (quick) / 2^17 (thorough) on four bases incl. the top of the number space, 200k/60M random triples, and a differential of PacketNumber::decode against a reference A.3 decoder on arbitrary truncated inputs.",
        note="qconnection::tx::PacketWriter is not linked; its call sequences on the journal guard are reproduced from source. Reference decoder is hand-written from RFC 9000 A.3.",
        design_ref="DESIGN.md §3 C07",
    ),
    "C10": dict(
        engine="comp",
        category="exploration",
        technique="model-based property testing of both journals under a paused clock, with complete enumeration of small histories",
        text="rx: every subset/order of small packet-number sets, every tracked largest and every capacity 0..24 exhaustively, plus long random histories: generated ACK frames must list only received numbers, be the maximal prefix-from-the-top that fits, fit the capacity, and a number is accepted at most once; records may only be dropped after confirmation. tx: every op sequence up to length 6/7 and random histories through line-for-line copies of the connection's ACK/loss glue: frames reported acked/lost are exactly those recorded in that packet, once each, never a neighbour's.",
        note="The Ack*Space::recv_frame glue of qconnection is mirrored in the harness (the real glue runs in the C02 simnet). ACK frames on the tx side acknowledge only packets really sent (hostile ACKs are C04).",
        design_ref="DESIGN.md §3 C10",
    ),
    "C13": dict(
        engine="comp",
        category="exploration",
        technique="model-based history testing of ArcCC against an executable RFC 9002 reference model (paused clock, state snapshot hook), with exhaustive short histories",
        text="Histories of sends (three spaces, sizes, ack-eliciting/in-flight flags), ACK frames (ranges, delays, ECN), clock advances and ticks drive the real ArcCC through its Transport trait; after every op a hook snapshot (cwnd, bytes_in_flight, recovery start, pto_count, timers, outstanding packets) is compared with what RFC 9002 permits: loss only with a larger acked number and packet/time threshold, acked never lost, in-flight packets always covered by a timer, PTO doubling and abandonment, pto_count reset by an ACK only once the peer has validated the address (RFC 9002 A.7) and always then, cwnd >= 2 datagrams, at most one reduction per round trip, growth only outside recovery, bytes_in_flight accounting, quota vs window. All words <=5 (quick) / 7 (thorough) over an 8-letter alphabet exhaustively, 162k / 2.1M random histories.",
        note="'Eventually' is checked only in bounded form. The implementation may be more conservative than RFC 9002, never less. Seven confirmed divergences are listed as known findings with narrow signatures; everything else is still asserted behind them.",
        design_ref="DESIGN.md §3 C13",
    ),
    "C14": dict(
        engine="comp",
        category="exploration",
        technique="model-based property testing of local/remote connection-ID tables over a real QuicRouter, with complete enumeration of short remote histories",
        text="Local: 1-5 connections sharing one real router, retire frames in any order (duplicate, unissued), limit changes, handle and connection drops; after every op every ID ever issued is routed with a real parsed packet and must reach exactly its own live connection or nothing. Remote: NEW_CONNECTION_ID frames (reordered, duplicated, any retire_prior_to) interleaved with up to 6 paths borrowing/releasing IDs: one ID per path, no sharing, retire-prior-to honoured, exactly one RETIRE per abandoned ID, limit enforced. All 18-op-alphabet sequences of depth 4 (quick) / 5 (thorough) + 520k / 7M random histories. Stage router-threads: 300 (12k) cases in which 2-4 real threads (the receive tasks of several interfaces) deliver first-flight packets for destination connection IDs the router does not know yet through QuicRouter::deliver, with a connectless handler that registers the route synchronously as QuicListeners::try_accept_connection does: exactly one connection per new ID, and every packet for it in that connection's queue (interleaving chosen by the operating system: exact oracle, probabilistic detection).",
        note="Sequence numbers bounded to a small range (unbounded-value cost is C04). Which free ID goes to which path is not predicted, only invariants are asserted.",
        design_ref="DESIGN.md §3 C14",
    ),
    "C18": dict(
        engine="comp",
        category="exploration",
        technique="property testing of transport-parameter parsing/validation against an RFC 9000 section 7.3/7.4/18.2 reference decoder, exhaustive over single-clause violations x role x arrival order",
        text="Wire blobs are built from a generated description (each id present/absent/duplicated, values at and one beyond each bound, role-inappropriate, unknown and grease ids, malformed bodies, CID values equal/differing/other length); parse_from_bytes must return a TransportParameter error iff a clause of the reference is violated and never panic; ArcParameters must become ready iff both the first packet and the TLS extension were processed and the declared CIDs equal the observed ones (both arrival orders, both roles); negotiated idle timeout and 0-RTT acceptance are compared with the model. 7.3k single-deviation cases exhaustively + 930k random (quick) / 16.6M (thorough). Connection-level stage resumed-0rtt (binary c18e, evidence merged): 2k (60k thorough) runs of two lives of one server over simnet with a shared TLS session storage and 0-RTT enabled: the client learns a ticket with parameters a, the server restarts with parameters b (each of the six 0-RTT relevant limits generated smaller / equal / larger), the client resumes, opens streams and writes early data before seeing anything from the server, then runs more echo streams than the limits allow at once: the connection must not be ended by either side and every echo must complete intact (the decision is taken in ClientTlsSession::try_process_ee, which only a resumed handshake reaches).",
        note="Component level only; the handshake-level verdict is exercised by the C02 simnet runs with valid parameters. Duplicate parameters and max_udp_payload_size > 65527 are tolerated either way (RFC leaves it open).",
        design_ref="DESIGN.md §3 C18",
    ),
    "C08": dict(
        engine="comp",
        category="exploration",
        technique="model-based property testing (proptest) against a per-byte coverage-map reference model + exhaustive enumeration of short streams",
        text="Every sequence of <=4 fragments (all offsets/lengths, empty, duplicate, overlapping) over contents of length <=4 (quick; <=6 thorough) with a read of every size at every position is enumerated exhaustively; 20k (quick) / 3M (thorough) random histories up to 64 kB / 200 ops are compared step by step with a reference model (nread, available, is_readable, is_empty, largest_offset, bytes returned, recv() report sum), and replayed through the crypto-stream receiver.",
        note="Fragments are slices of one fixed content (the property's precondition). Reference model and harness are trusted. Recv/SizeKnown wrappers are reached through C01's DataStreams harness, not here.",
        design_ref="DESIGN.md §3 C08",
    ),
}

NOT_YET = "check not built yet in this snapshot of /verif (work in progress; see DESIGN.md §7 order of work)"


def main():
    props = [json.loads(l) for l in open(f"{ROOT}/properties.jsonl")]
    checks = []
    na = []
    for p in props:
        pid = p["id"]
        c = CHECKS.get(pid)
        if not c:
            na.append({"property_id": pid, "reason": NOT_YET})
            continue
        checks.append(
            {
                "property_id": pid,
                "quick_cmd": f"bin/check {pid} quick",
                "thorough_cmd": f"bin/check {pid} thorough",
                "evidence_file": f"/verif/evidence/{pid}.json",
                "replay_cmd_template": f"bin/check replay {pid} {{path}}",
                "engine": c["engine"],
                "level_claimed": {
                    "category": c["category"],
                    "text": c["text"],
                    "design_ref": c["design_ref"],
                },
                "level_note": c["note"],
                "technique": c["technique"],
            }
        )
    hooks_commits = []
    try:
        out = subprocess.run(
            ["git", "-C", "/repo", "log", "--format=%H %s"], capture_output=True, text=True
        ).stdout
        for line in out.splitlines():
            h, _, s = line.partition(" ")
            if s.startswith("verif-hook:"):
                hooks_commits.append(h)
    except Exception:
        pass
    manifest = {
        "version": 1,
        "setup_cmd": "bin/setup",
        "hooks": {
            "guard": "--cfg genmeta_gm_quic_verif",
            "enable": "harness/.cargo/config.toml sets rustflags = [\"--cfg\", \"genmeta_gm_quic_verif\"] for every build of the harness workspace (which compiles /repo's crates by path into /verif/target)",
            "baseline_off_cmd": "cd /repo && cargo nextest run --workspace --no-fail-fast --test-threads 8 --offline || cargo test --workspace --no-fail-fast --offline",
            "source_commits": hooks_commits,
            "add_only": True,
        },
        "engines": [
            {
                "name": "vcore",
                "path": "harness/vcore",
                "serves_properties": [c["property_id"] for c in checks],
                "kind_free_text": "proptest TestRunner wrapper: seeded sharded generation, classification, distinct non-trivial counting, shrinking to the same failure signature, replay files, known-finding matching, evidence writer; exhaustive enumerator for small bounds",
            },
            {
                "name": "comp",
                "path": "harness/comp",
                "serves_properties": [c["property_id"] for c in checks if c["engine"] == "comp"],
                "kind_free_text": "component-level model-based checks driving qbase/qrecovery/qcongestion/qdatagram/qevent public APIs against executable reference models",
            },
            {
                "name": "e2e",
                "path": "harness/e2e",
                "serves_properties": [c["property_id"] for c in checks if c["engine"] == "e2e"],
                "kind_free_text": "simnet: dquic client+server over an in-memory datagram network with generated fault schedules under tokio virtual time",
            },
        ],
        "checks": checks,
        "not_applicable": na,
        "notes": "All checks: exit 0 = held, 1 = VIOLATION line, 2 = infrastructure/inconclusive. VERIF_SEED selects the generator seed. known-findings.jsonl lists confirmed, unrepaired defects (printed as KNOWN-FINDING, exit 0).",
    }
    json.dump(manifest, open(f"{ROOT}/MANIFEST.json", "w"), indent=1)
    print(f"MANIFEST.json: {len(checks)} checks, {len(na)} not claimed")


if __name__ == "__main__":
    main()
